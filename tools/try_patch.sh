#!/bin/bash
# usage: tools/try_patch.sh <patch.diff> <tier> <ID> [<ID>...]
# Applies a patch to /repo's working tree, runs the given checks, and always
# restores /repo afterwards. Prints one line per check: <ID> rc=<n>.
set -u
patch=$(readlink -f "$1"); tier=$2; shift 2
cd /repo || exit 3
if ! git diff --quiet; then echo "/repo has uncommitted changes"; exit 3; fi
if ! git apply --check "$patch" 2>/dev/null; then echo "patch does not apply: $patch"; exit 3; fi
git apply "$patch"
trap 'git -C /repo checkout -- . ; git -C /repo clean -fdq' EXIT
cd /verif
for id in "$@"; do
  out=$(./check "$id" "$tier" 2>&1); rc=$?
  echo "$id rc=$rc :: $(echo "$out" | grep -E 'VIOLATION|KNOWN-FINDING|INCONCLUSIVE|BUILD-FAILED' | head -3 | tr '\n' ' ') $(echo "$out" | tail -1)"
done
