#!/usr/bin/env python3
"""Runs checks against the seeded changes in /verif/seeded/<id>/patch.diff.

usage: tools/seeded_matrix.py [--tier quick] [--scratch] [--only ID ...]
For every seeded change: git -C /repo apply <patch>, run the quick (or given)
tier of the checks named in its meta.json ("properties"), undo the change
(git -C /repo checkout -- .), and record the outcome in meta.json under
"last_run" and in seeded/MATRIX.md.
With --scratch the patch is applied in a throw-away git worktree of /repo
(under /tmp, removed afterwards) and the checks are pointed at it with
VERIF_REPO, so /repo itself stays untouched (for use while a sweep is reading
/repo); evidence files are still rewritten, re-run the checks on /repo
afterwards.
"""
import json, os, re, subprocess, sys, time
ROOT = "/verif"
tier = "quick"
scratch = False
only = []
args = sys.argv[1:]
while args:
    a = args.pop(0)
    if a == "--tier":
        tier = args.pop(0)
    elif a == "--scratch":
        scratch = True
    elif a == "--only":
        only = args
        args = []
def sh(cmd, **kw):
    return subprocess.run(cmd, shell=True, stdout=subprocess.PIPE, stderr=subprocess.STDOUT, text=True, **kw)
if not scratch and sh("git -C /repo diff --quiet").returncode != 0:
    print("/repo has uncommitted changes"); sys.exit(3)
rows = []
for sid in sorted(os.listdir(os.path.join(ROOT, "seeded"))):
    d = os.path.join(ROOT, "seeded", sid)
    pf = os.path.join(d, "patch.diff")
    if not os.path.isfile(pf) or (only and sid not in only):
        continue
    mf = os.path.join(d, "meta.json")
    meta = json.load(open(mf)) if os.path.exists(mf) else {"id": sid, "properties": []}
    if meta.get("retired"):
        continue
    repo = "/repo"
    envp = ""
    if scratch:
        repo = "/tmp/sm-" + sid
        sh("git -C /repo worktree remove --force " + repo)
        if sh("git -C /repo worktree add -q --detach %s HEAD" % repo).returncode != 0:
            rows.append((sid, "WORKTREE FAILED", "")); continue
        envp = "VERIF_REPO=%s " % repo
    if sh("git -C %s apply --check %s" % (repo, pf)).returncode != 0:
        rows.append((sid, "PATCH DOES NOT APPLY", ""))
        print(rows[-1], flush=True)
        if scratch:
            sh("git -C /repo worktree remove --force " + repo)
        continue
    sh("git -C %s apply %s" % (repo, pf))
    res = {}
    try:
        for prop in meta.get("properties", []):
            t0 = time.time()
            p = sh("cd /verif && %s./check %s %s" % (envp, prop, tier))
            lines = [l for l in p.stdout.splitlines() if l.startswith(("VIOLATION", "KNOWN-FINDING", "INCONCLUSIVE", "BUILD-FAILED"))]
            sigs = sorted(set(l.split("replay=")[1].split("/")[-1].rsplit("-", 1)[0] for l in lines if l.startswith("VIOLATION")))
            res[prop] = {"exit": p.returncode, "violation_files": sigs[:6], "wall_s": round(time.time() - t0, 1), "summary": p.stdout.strip().splitlines()[-1] if p.stdout.strip() else ""}
    finally:
        if scratch:
            sh("git -C /repo worktree remove --force " + repo)
            sh("rm -rf /verif/.bin/alt_tmp_sm_" + re.sub(r"[^A-Za-z0-9]+", "_", sid))
        else:
            sh("git -C /repo checkout -- . && git -C /repo clean -fdq")
    meta["last_run"] = {"tier": tier, "seed": int(os.environ.get("VERIF_SEED", "1")), "results": res}
    meta["detected"] = any(v["exit"] == 1 for v in res.values())
    json.dump(meta, open(mf, "w"), indent=1)
    rows.append((sid, "DETECTED" if meta["detected"] else "MISSED", "; ".join("%s exit=%d %s" % (k, v["exit"], ",".join(v["violation_files"])[:120]) for k, v in res.items())))
    print(rows[-1], flush=True)
