#!/usr/bin/env python3
"""Runs checks against the seeded changes in /verif/seeded/<id>/patch.diff.

usage: tools/seeded_matrix.py [--tier quick] [--only ID ...]
For every seeded change: git -C /repo apply <patch>, run the quick (or given)
tier of the checks named in its meta.json ("properties"), undo the change
(git -C /repo checkout -- .), and record the outcome in meta.json under
"last_run" and in seeded/MATRIX.md.
"""
import json, os, subprocess, sys, time
ROOT = "/verif"
tier = "quick"
only = []
args = sys.argv[1:]
while args:
    a = args.pop(0)
    if a == "--tier":
        tier = args.pop(0)
    elif a == "--only":
        only = args
        args = []
def sh(cmd, **kw):
    return subprocess.run(cmd, shell=True, stdout=subprocess.PIPE, stderr=subprocess.STDOUT, text=True, **kw)
if sh("git -C /repo diff --quiet").returncode != 0:
    print("/repo has uncommitted changes"); sys.exit(3)
rows = []
for sid in sorted(os.listdir(os.path.join(ROOT, "seeded"))):
    d = os.path.join(ROOT, "seeded", sid)
    pf = os.path.join(d, "patch.diff")
    if not os.path.isfile(pf) or (only and sid not in only):
        continue
    mf = os.path.join(d, "meta.json")
    meta = json.load(open(mf)) if os.path.exists(mf) else {"id": sid, "properties": []}
    if sh("git -C /repo apply --check " + pf).returncode != 0:
        rows.append((sid, "PATCH DOES NOT APPLY", ""))
        continue
    sh("git -C /repo apply " + pf)
    res = {}
    try:
        for prop in meta.get("properties", []):
            t0 = time.time()
            p = sh("cd /verif && ./check %s %s" % (prop, tier))
            lines = [l for l in p.stdout.splitlines() if l.startswith(("VIOLATION", "KNOWN-FINDING", "INCONCLUSIVE", "BUILD-FAILED"))]
            sigs = sorted(set(l.split("replay=")[1].split("/")[-1].rsplit("-", 1)[0] for l in lines if l.startswith("VIOLATION")))
            res[prop] = {"exit": p.returncode, "violation_files": sigs[:6], "wall_s": round(time.time() - t0, 1), "summary": p.stdout.strip().splitlines()[-1] if p.stdout.strip() else ""}
    finally:
        sh("git -C /repo checkout -- . && git -C /repo clean -fdq")
    meta["last_run"] = {"tier": tier, "seed": int(os.environ.get("VERIF_SEED", "1")), "results": res}
    meta["detected"] = any(v["exit"] == 1 for v in res.values())
    json.dump(meta, open(mf, "w"), indent=1)
    rows.append((sid, "DETECTED" if meta["detected"] else "MISSED", "; ".join("%s exit=%d %s" % (k, v["exit"], ",".join(v["violation_files"])[:120]) for k, v in res.items())))
    print(rows[-1], flush=True)
