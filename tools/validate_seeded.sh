#!/bin/bash
# usage: tools/validate_seeded.sh <seeded-id> <demo-package-dir-relative-to-repo | -> [go test args for the demo...]
# Confirms a seeded change in a fresh scratch worktree of /repo: the patch
# applies, builds with and without the verif tag, the existing suite passes,
# and the demonstration fails with the change and passes without it.
# The scratch worktree is removed afterwards.
set -u
id=$1; demodir=$2; shift 2
export GOFLAGS=-mod=mod GOPROXY=off GOSUMDB=off GOTOOLCHAIN=local
S=/verif/seeded/$id
W=/tmp/val-$id
git -C /repo worktree remove --force $W 2>/dev/null
git -C /repo worktree add -q --detach $W HEAD || exit 3
trap 'git -C /repo worktree remove --force '$W' 2>/dev/null' EXIT
cd $W
rundemo() {
  if [ "$demodir" = "-" ]; then echo "no demo"; return 0; fi
  mkdir -p $W/$demodir
  for f in $S/demo*_test.go $S/stress_test.go; do [ -f "$f" ] && cp $f $W/$demodir/zz_$(basename $f); done
  (set -o pipefail; cd $W && timeout 300 go test -tags "verif mutantdemo c13demo" -vet=off -count=1 "$@" ./$demodir/ 2>&1 | tail -4)
  rc=$?
  rm -f $W/$demodir/zz_demo*_test.go $W/$demodir/zz_stress_test.go
  return $rc
}
echo "== demo WITHOUT the change (must pass)"; rundemo "$@"; echo "demo-without rc=$?"
git apply $S/patch.diff || { echo "PATCH DOES NOT APPLY"; exit 1; }
echo "== build"; go build ./... && go build -tags verif ./... && echo "build ok"
echo "== existing suite WITH the change (must pass)"; go test -vet=off -count=1 ./... 2>&1 | grep -v "no test files" | grep -v "^ok" | head -5; echo "suite rc=${PIPESTATUS[0]}"
echo "== demo WITH the change (must fail)"; rundemo "$@"; echo "demo-with rc=$?"
