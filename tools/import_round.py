#!/usr/bin/env python3
"""Imports sub-agent output (/tmp/<round>-out/<PROP>/<v>/{patch.diff,demo_test.go,notes.txt})
into /verif/seeded/<prefix>-<PROP><v>-<slug>/. usage: import_round.py <outdir> <prefix> PROP/v=slug ..."""
import json, os, re, shutil, sys
out, prefix = sys.argv[1], sys.argv[2]
for spec in sys.argv[3:]:
    pv, slug = spec.split("=")
    prop, v = pv.split("/")
    src = os.path.join(out, prop, v)
    sid = "%s-%s%s-%s" % (prefix, prop, v, slug)
    dst = os.path.join("/verif/seeded", sid)
    os.makedirs(dst, exist_ok=True)
    shutil.copy(os.path.join(src, "patch.diff"), os.path.join(dst, "patch.diff"))
    demo = open(os.path.join(src, "demo_test.go")).read()
    open(os.path.join(dst, "demo_test.go"), "w").write(demo)
    notes = open(os.path.join(src, "notes.txt")).read()
    open(os.path.join(dst, "NOTES.md"), "w").write(notes)
    m = re.search(r"//\s*dir:\s*(\S+)", demo)
    demodir = m.group(1) if m else "."
    first = " ".join(notes.strip().split("\n\n")[0].split())[:400]
    needs = ""
    mm = re.search(r"Needs?:?\s*(.*?)(?:\n[A-Z][a-z]+[ :(]|\nCommands|\Z)", notes, re.S)
    if mm:
        needs = " ".join(mm.group(1).split())[:400]
    meta = {"id": sid, "properties": [prop],
            "origin": "independent sub-agent (round %s: given only the property text and a scratch worktree, asked for two changes attacking different clauses)" % {"C": "3", "E": "4", "F": "5", "G": "6", "H": "7", "I": "8", "J": "9", "K": "10", "L": "11", "N": "12", "P": "13", "Q": "14", "R": "15", "S": "16", "T": "17", "U": "18"}.get(prefix, prefix),
            "what": first, "needs": needs, "demo_dir": demodir}
    mf = os.path.join(dst, "meta.json")
    if os.path.exists(mf):
        old = json.load(open(mf)); old.update(meta); meta = old
    json.dump(meta, open(mf, "w"), indent=1)
    print(sid, demodir)
