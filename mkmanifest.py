#!/usr/bin/env python3
"""Regenerates MANIFEST.json from plan.py (single source of truth)."""
import json
import os
import subprocess
import sys

ROOT = os.path.dirname(os.path.abspath(__file__))
sys.path.insert(0, ROOT)
from plan import PLAN, NOT_APPLICABLE  # noqa: E402

props = [json.loads(l)["id"] for l in open(os.path.join(ROOT, "properties.jsonl"))]
hook_commits = subprocess.run(["git", "-C", "/repo", "log", "--format=%H %s"], stdout=subprocess.PIPE, text=True).stdout.splitlines()
hook_commits = [l.split()[0] for l in hook_commits if l.split(" ", 1)[1].startswith("verif hooks")]

checks = []
for pid in props:
    if pid not in PLAN:
        continue
    p = PLAN[pid]
    checks.append({
        "property_id": pid,
        "quick_cmd": "./check %s quick" % pid,
        "thorough_cmd": "./check %s thorough" % pid,
        "evidence_file": "/verif/evidence/%s.json" % pid,
        "replay_cmd_template": "./check %s --replay {path}" % pid,
        "engine": "vh",
        "level_claimed": {"category": p.get("level", "exploration"), "text": p["level_text"], "design_ref": "DESIGN.md section 6, " + pid},
        "level_note": p["level_note"],
        "technique": p["technique"],
    })
na = [{"property_id": pid, "reason": NOT_APPLICABLE.get(pid, "check not built yet in this round (planned, see DESIGN.md section 6)")} for pid in props if pid not in PLAN]
m = {
    "version": 1,
    "setup_cmd": "./check --setup",
    "hooks": {
        "guard": "verif",
        "enable": "go build -tags verif (the harness module /verif/harness replaces github.com/uber-go/tally/v4 with /repo, so every check rebuilds from /repo's working tree)",
        "baseline_off_cmd": "cd /repo && GOFLAGS=-mod=mod go test -json -vet=off -count=1 -timeout 25m ./...",
        "source_commits": hook_commits,
        "add_only": True,
    },
    "engines": [{"name": "vh", "path": "/verif/harness", "serves_properties": [c["property_id"] for c in checks],
                 "kind_free_text": "Go harness executing the real tally code under generated/hostile workloads with recording reporters, reference-model oracles, schedule-point hooks (token scheduler and delay injection), race detector builds, UDP sinks; driven by /verif/check (python3)"}],
    "checks": checks,
    "notes": "Runtime monitoring only: every verdict comes from an oracle observing executions of /repo's code. Known genuine defects: known_findings.json. See DESIGN.md.",
    "not_applicable": na,
}
json.dump(m, open(os.path.join(ROOT, "MANIFEST.json"), "w"), indent=1)
print("MANIFEST.json: %d checks, %d not_applicable" % (len(checks), len(na)))
