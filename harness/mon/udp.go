package mon

import (
	"bufio"
	"fmt"
	"net"
	"os"
	"strings"
	"sync"
	"syscall"
	"time"
)

// Sink is a loopback UDP listener that keeps every datagram in arrival order.
type Sink struct {
	conn   *net.UDPConn
	port   int
	mu     sync.Mutex
	dgrams [][]byte
	done   chan struct{}
	forced bool
}

const soRcvBufForce = 33

// NewSink listens on 127.0.0.1:0 with a large receive buffer (forced past
// rmem_max when the process may do so).
func NewSink() (*Sink, error) {
	conn, err := net.ListenUDP("udp4", &net.UDPAddr{IP: net.IPv4(127, 0, 0, 1)})
	if err != nil {
		return nil, err
	}
	s := &Sink{conn: conn, port: conn.LocalAddr().(*net.UDPAddr).Port, done: make(chan struct{})}
	if rc, err := conn.SyscallConn(); err == nil {
		rc.Control(func(fd uintptr) {
			if syscall.SetsockoptInt(int(fd), syscall.SOL_SOCKET, soRcvBufForce, 64<<20) == nil {
				s.forced = true
			} else {
				syscall.SetsockoptInt(int(fd), syscall.SOL_SOCKET, syscall.SO_RCVBUF, 8<<20)
			}
		})
	}
	go s.loop()
	return s, nil
}

func (s *Sink) loop() {
	defer close(s.done)
	buf := make([]byte, 70000)
	for {
		n, _, err := s.conn.ReadFromUDP(buf)
		if err != nil {
			return
		}
		d := make([]byte, n)
		copy(d, buf[:n])
		s.mu.Lock()
		s.dgrams = append(s.dgrams, d)
		s.mu.Unlock()
	}
}

func (s *Sink) Addr() string { return fmt.Sprintf("127.0.0.1:%d", s.port) }

func (s *Sink) Count() int {
	s.mu.Lock()
	defer s.mu.Unlock()
	return len(s.dgrams)
}

// WaitFor waits until n datagrams have arrived; false if they have not after
// the (generous) wait: the caller then consults Drops and reports the history
// as inconclusive, never as a violation by itself.
func (s *Sink) WaitFor(n int, max time.Duration) bool {
	t0 := time.Now()
	for s.Count() < n {
		if time.Since(t0) > max {
			return false
		}
		time.Sleep(200 * time.Microsecond)
	}
	return true
}

// Settle waits until no datagram has arrived for the given quiet period.
func (s *Sink) Settle(quiet time.Duration) {
	last := s.Count()
	t0 := time.Now()
	for time.Since(t0) < quiet {
		time.Sleep(quiet / 4)
		if n := s.Count(); n != last {
			last = n
			t0 = time.Now()
		}
	}
}

func (s *Sink) Datagrams() [][]byte {
	s.mu.Lock()
	defer s.mu.Unlock()
	out := make([][]byte, len(s.dgrams))
	copy(out, s.dgrams)
	return out
}

// Drops reads the kernel's drop counter of this socket from /proc/net/udp.
func (s *Sink) Drops() int {
	f, err := os.Open("/proc/net/udp")
	if err != nil {
		return -1
	}
	defer f.Close()
	want := fmt.Sprintf(":%04X", s.port)
	sc := bufio.NewScanner(f)
	for sc.Scan() {
		fields := strings.Fields(sc.Text())
		if len(fields) >= 13 && strings.HasSuffix(fields[1], want) {
			var d int
			fmt.Sscanf(fields[len(fields)-1], "%d", &d)
			return d
		}
	}
	return -1
}

func (s *Sink) Forced() bool { return s.forced }

// Close stops the listener (the socket is closed: later sends to the port are
// refused).
func (s *Sink) Close() {
	s.conn.Close()
	<-s.done
}

// DeadPort returns an address on which nothing listens (sends get
// ECONNREFUSED on the following send).
func DeadPort() string {
	conn, err := net.ListenUDP("udp4", &net.UDPAddr{IP: net.IPv4(127, 0, 0, 1)})
	if err != nil {
		return "127.0.0.1:9"
	}
	port := conn.LocalAddr().(*net.UDPAddr).Port
	conn.Close()
	return fmt.Sprintf("127.0.0.1:%d", port)
}
