package mon

import (
	"bufio"
	"fmt"
	"net"
	"os"
	"strings"
	"sync"
	"syscall"
	"time"
)

// Sink is a loopback UDP listener that keeps every datagram in arrival order.
type Sink struct {
	conn   *net.UDPConn
	port   int
	mu     sync.Mutex
	dgrams [][]byte
	done   chan struct{}
	forced bool
	// ReplyN > 0: answer every datagram with ReplyN copies of Reply (for
	// full-duplex tests of client transports)
	Reply  []byte
	ReplyN int
}

const soRcvBufForce = 33

// NewSink listens on 127.0.0.1:0 with a large receive buffer (forced past
// rmem_max when the process may do so).
func NewSink() (*Sink, error) { return NewSinkReply(nil, 0) }

// NewSinkLowPort is NewSink on a port below the ephemeral range: for sinks that
// are closed while a sender is still alive, so that the released port cannot be
// handed to another process's sink (which would then receive the stray sends).
func NewSinkLowPort() (*Sink, error) {
	for i := 0; i < 50; i++ {
		addr, err := net.ResolveUDPAddr("udp4", DeadPort())
		if err != nil {
			continue
		}
		conn, err := net.ListenUDP("udp4", addr)
		if err != nil {
			continue
		}
		return newSinkOn(conn, nil, 0), nil
	}
	return NewSink()
}

// NewSinkReply is NewSink answering every datagram with n copies of reply.
func NewSinkReply(reply []byte, n int) (*Sink, error) {
	conn, err := net.ListenUDP("udp4", &net.UDPAddr{IP: net.IPv4(127, 0, 0, 1)})
	if err != nil {
		return nil, err
	}
	return newSinkOn(conn, reply, n), nil
}

func newSinkOn(conn *net.UDPConn, reply []byte, n int) *Sink {
	s := &Sink{conn: conn, port: conn.LocalAddr().(*net.UDPAddr).Port, done: make(chan struct{}), Reply: reply, ReplyN: n}
	if rc, err := conn.SyscallConn(); err == nil {
		rc.Control(func(fd uintptr) {
			if syscall.SetsockoptInt(int(fd), syscall.SOL_SOCKET, soRcvBufForce, 64<<20) == nil {
				s.forced = true
			} else {
				syscall.SetsockoptInt(int(fd), syscall.SOL_SOCKET, syscall.SO_RCVBUF, 8<<20)
			}
		})
	}
	go s.loop()
	return s
}

func (s *Sink) loop() {
	defer close(s.done)
	buf := make([]byte, 70000)
	for {
		n, from, err := s.conn.ReadFromUDP(buf)
		if err != nil {
			return
		}
		for i := 0; i < s.ReplyN; i++ {
			s.conn.WriteToUDP(s.Reply, from)
		}
		d := make([]byte, n)
		copy(d, buf[:n])
		s.mu.Lock()
		s.dgrams = append(s.dgrams, d)
		s.mu.Unlock()
	}
}

func (s *Sink) Addr() string { return fmt.Sprintf("127.0.0.1:%d", s.port) }

func (s *Sink) Count() int {
	s.mu.Lock()
	defer s.mu.Unlock()
	return len(s.dgrams)
}

// WaitFor waits until n datagrams have arrived; false if they have not after
// the (generous) wait: the caller then consults Drops and reports the history
// as inconclusive, never as a violation by itself.
func (s *Sink) WaitFor(n int, max time.Duration) bool {
	t0 := time.Now()
	for s.Count() < n {
		if time.Since(t0) > max {
			return false
		}
		time.Sleep(200 * time.Microsecond)
	}
	return true
}

// Settle waits until no datagram has arrived for the given quiet period.
func (s *Sink) Settle(quiet time.Duration) {
	last := s.Count()
	t0 := time.Now()
	for time.Since(t0) < quiet {
		time.Sleep(quiet / 4)
		if n := s.Count(); n != last {
			last = n
			t0 = time.Now()
		}
	}
}

func (s *Sink) Datagrams() [][]byte {
	s.mu.Lock()
	defer s.mu.Unlock()
	out := make([][]byte, len(s.dgrams))
	copy(out, s.dgrams)
	return out
}

// Drops reads the kernel's drop counter of this socket from /proc/net/udp.
func (s *Sink) Drops() int {
	f, err := os.Open("/proc/net/udp")
	if err != nil {
		return -1
	}
	defer f.Close()
	want := fmt.Sprintf(":%04X", s.port)
	sc := bufio.NewScanner(f)
	for sc.Scan() {
		fields := strings.Fields(sc.Text())
		if len(fields) >= 13 && strings.HasSuffix(fields[1], want) {
			var d int
			fmt.Sscanf(fields[len(fields)-1], "%d", &d)
			return d
		}
	}
	return -1
}

func (s *Sink) Forced() bool { return s.forced }

// Close stops the listener (the socket is closed: later sends to the port are
// refused).
func (s *Sink) Close() {
	s.conn.Close()
	<-s.done
}

// DeadPort returns an address on which nothing listens (sends get
// ECONNREFUSED on the following send). The port is taken from below the
// kernel's ephemeral range: a port obtained by bind+close from the ephemeral
// range can be handed to another process's sink a moment later, and the
// "dead" destination would then deliver into that sink.
func DeadPort() string {
	lo, hi := 2000, 30000
	if b, err := os.ReadFile("/proc/sys/net/ipv4/ip_local_port_range"); err == nil {
		var a, z int
		if n, _ := fmt.Sscanf(string(b), "%d %d", &a, &z); n == 2 && a > 3000 {
			hi = a - 1
		}
	}
	seed := uint64(time.Now().UnixNano()) ^ uint64(os.Getpid())<<32
	for i := 0; i < 200; i++ {
		seed = mix(seed)
		port := lo + int(seed%uint64(hi-lo))
		conn, err := net.ListenUDP("udp4", &net.UDPAddr{IP: net.IPv4(127, 0, 0, 1), Port: port})
		if err != nil {
			continue // somebody listens there
		}
		conn.Close()
		return fmt.Sprintf("127.0.0.1:%d", port)
	}
	return "127.0.0.1:9"
}
