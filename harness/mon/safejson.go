package mon

import (
	"fmt"
	"reflect"
	"strconv"
	"unicode/utf8"
)

// SafeJSON converts a value into a tree of maps/slices/scalars in which every
// string that is not valid UTF-8 is rendered as a Go quoted literal prefixed
// with "<raw>", so witnesses keep their exact bytes through encoding/json.
func SafeJSON(v interface{}) interface{} {
	return safeVal(reflect.ValueOf(v), 0)
}

func safeStr(s string) string {
	if utf8.ValidString(s) {
		return s
	}
	return "<raw>" + strconv.Quote(s)
}

func safeVal(v reflect.Value, depth int) interface{} {
	if !v.IsValid() || depth > 12 {
		return nil
	}
	switch v.Kind() {
	case reflect.Interface, reflect.Ptr:
		if v.IsNil() {
			return nil
		}
		return safeVal(v.Elem(), depth+1)
	case reflect.String:
		return safeStr(v.String())
	case reflect.Map:
		out := map[string]interface{}{}
		for _, k := range v.MapKeys() {
			var ks string
			if k.Kind() == reflect.String {
				ks = safeStr(k.String())
			} else {
				ks = fmt.Sprint(k.Interface())
			}
			out[ks] = safeVal(v.MapIndex(k), depth+1)
		}
		return out
	case reflect.Slice, reflect.Array:
		if v.Kind() == reflect.Slice && v.IsNil() {
			return nil
		}
		out := make([]interface{}, v.Len())
		for i := range out {
			out[i] = safeVal(v.Index(i), depth+1)
		}
		return out
	case reflect.Struct:
		out := map[string]interface{}{}
		t := v.Type()
		for i := 0; i < v.NumField(); i++ {
			f := t.Field(i)
			if f.PkgPath != "" {
				continue
			}
			name := f.Name
			if tag := f.Tag.Get("json"); tag != "" && tag != "-" {
				for j := 0; j < len(tag); j++ {
					if tag[j] == ',' {
						tag = tag[:j]
						break
					}
				}
				if tag != "" {
					name = tag
				}
			} else if f.Tag.Get("json") == "-" {
				continue
			}
			out[name] = safeVal(v.Field(i), depth+1)
		}
		return out
	case reflect.Float32, reflect.Float64:
		f := v.Float()
		if f != f || f > 1.7e308 || f < -1.7e308 {
			return fmt.Sprint(f)
		}
		return f
	case reflect.Bool:
		return v.Bool()
	case reflect.Int, reflect.Int8, reflect.Int16, reflect.Int32, reflect.Int64:
		return v.Int()
	case reflect.Uint, reflect.Uint8, reflect.Uint16, reflect.Uint32, reflect.Uint64:
		return v.Uint()
	default:
		return fmt.Sprint(v.Interface())
	}
}
