package mon

import (
	"math"
	"time"
)

// Boundary-heavy generators. All choices come from the Rand handed in.

var interestingFloats = []float64{
	0, math.Copysign(0, -1), 1, -1, 0.5, -0.5, 2, 10, 100, 1e-3, 1e3, 1e9, -1e9, 1e300, -1e300,
	math.MaxFloat64, -math.MaxFloat64, math.SmallestNonzeroFloat64, -math.SmallestNonzeroFloat64,
	2.2250738585072014e-308, 4.9406564584124654e-324, 1 << 53, -(1 << 53), 0.1, 0.2, 0.30000000000000004,
}

// FiniteFloat returns a finite float64, boundary heavy.
func (r *Rand) FiniteFloat() float64 {
	switch r.Intn(6) {
	case 0:
		return interestingFloats[r.Intn(len(interestingFloats))]
	case 1:
		return float64(r.Range(-20, 20))
	case 2:
		return float64(r.Range(-2000, 2000)) / 8
	case 3:
		for {
			f := math.Float64frombits(r.U64())
			if !math.IsNaN(f) && !math.IsInf(f, 0) {
				return f
			}
		}
	case 4:
		return (r.Float() - 0.5) * math.Pow(10, float64(r.Range(-12, 12)))
	default:
		return float64(r.Range(0, 10))
	}
}

// AnyFloat may also return NaN (with random payload) and infinities.
func (r *Rand) AnyFloat() float64 {
	switch r.Intn(12) {
	case 0:
		return math.Inf(1)
	case 1:
		return math.Inf(-1)
	case 2:
		return math.NaN()
	case 3:
		// NaN with a random payload
		return math.Float64frombits(0x7ff0000000000001 | (r.U64() & 0x800fffffffffffff))
	}
	return r.FiniteFloat()
}

var interestingInts = []int64{0, 1, -1, 2, 7, 127, 128, 255, 256, 1 << 31, -(1 << 31), 1<<31 - 1, 1<<53 + 1,
	math.MaxInt64, math.MinInt64, math.MaxInt64 - 1, math.MinInt64 + 1, 1e9, 1e6, 1e3, -1e9}

func (r *Rand) AnyInt64() int64 {
	switch r.Intn(5) {
	case 0:
		return interestingInts[r.Intn(len(interestingInts))]
	case 1:
		return int64(r.Range(-50, 50))
	case 2:
		return int64(r.U64())
	case 3:
		return int64(r.U64() >> uint(r.Intn(64)))
	default:
		return -int64(r.U64() >> uint(r.Intn(64)))
	}
}

func (r *Rand) AnyDuration() time.Duration { return time.Duration(r.AnyInt64()) }

// ValueSpec returns an unsorted, possibly duplicated finite bound list.
func (r *Rand) ValueSpec(maxN int) []float64 {
	if maxN >= 8 && r.Chance(1, 6) {
		// evenly spaced bounds the way LinearValueBuckets computes them, with
		// widths that are not dyadic (start + i*width is then not (i*width)+start
		// re-derived from a division), sometimes in shuffled order
		n := r.Range(8, maxN)
		start := []float64{0, -1, 0.5, 3, -0.3}[r.Intn(5)]
		width := []float64{0.1, 0.3, 1.0 / 3, 0.001, 0.7, 2.5, 0.05, 1e-9}[r.Intn(8)]
		out := make([]float64, n)
		for i := range out {
			out[i] = start + float64(i)*width
		}
		if r.Chance(1, 3) {
			for i := len(out) - 1; i > 0; i-- {
				j := r.Intn(i + 1)
				out[i], out[j] = out[j], out[i]
			}
		}
		return out
	}
	n := r.Range(1, maxN)
	if r.Chance(1, 3) {
		n = r.Range(1, 5)
	}
	out := make([]float64, 0, n)
	style := r.Intn(4)
	for len(out) < n {
		switch {
		case len(out) > 0 && r.Chance(1, 6):
			out = append(out, out[r.Intn(len(out))]) // duplicate
		case style == 0:
			out = append(out, float64(r.Range(-10, 10)))
		case style == 1:
			out = append(out, r.FiniteFloat())
		case style == 2:
			out = append(out, float64(len(out))*0.25+float64(r.Range(-3, 3)))
		default:
			if r.Bool() {
				out = append(out, r.FiniteFloat())
			} else {
				out = append(out, float64(r.Range(-100, 100)))
			}
		}
	}
	return out
}

func (r *Rand) DurationSpec(maxN int) []time.Duration {
	n := r.Range(1, maxN)
	if r.Chance(1, 3) {
		n = r.Range(1, 5)
	}
	out := make([]time.Duration, 0, n)
	style := r.Intn(3)
	for len(out) < n {
		switch {
		case len(out) > 0 && r.Chance(1, 6):
			out = append(out, out[r.Intn(len(out))])
		case style == 0:
			out = append(out, time.Duration(r.Range(-10, 10))*time.Millisecond)
		case style == 1:
			out = append(out, r.AnyDuration())
		default:
			out = append(out, time.Duration(r.Range(-1000, 100000))*time.Microsecond)
		}
	}
	return out
}

// SamplesForValues returns samples on and around every bound plus extremes.
func (r *Rand) SamplesForValues(spec []float64, extra int) []float64 {
	var out []float64
	for _, b := range spec {
		if r.Chance(2, 3) || len(spec) < 8 {
			out = append(out, b, math.Nextafter(b, math.Inf(1)), math.Nextafter(b, math.Inf(-1)))
		}
	}
	out = append(out, 0, math.Copysign(0, -1), math.MaxFloat64, -math.MaxFloat64, math.Inf(1), math.Inf(-1), math.NaN(),
		math.SmallestNonzeroFloat64, -math.SmallestNonzeroFloat64)
	for i := 0; i < extra; i++ {
		out = append(out, r.AnyFloat())
	}
	// shuffle
	for i := len(out) - 1; i > 0; i-- {
		j := r.Intn(i + 1)
		out[i], out[j] = out[j], out[i]
	}
	return out
}

func (r *Rand) SamplesForDurations(spec []time.Duration, extra int) []time.Duration {
	var out []time.Duration
	for _, b := range spec {
		if r.Chance(2, 3) || len(spec) < 8 {
			out = append(out, b)
			if b < math.MaxInt64 {
				out = append(out, b+1)
			}
			if b > math.MinInt64 {
				out = append(out, b-1)
			}
		}
	}
	out = append(out, 0, 1, -1, math.MaxInt64, math.MinInt64)
	for i := 0; i < extra; i++ {
		out = append(out, r.AnyDuration())
	}
	for i := len(out) - 1; i > 0; i-- {
		j := r.Intn(i + 1)
		out[i], out[j] = out[j], out[i]
	}
	return out
}

// ---------------------------------------------------------------------------
// Strings.

var asciiPool = "abcXYZ019_-.:/ ,=+|\\\"'{}()[]<>!@#$%^&*~`;?\t\n\x00\x7f"
var multiPool = []rune{'é', 'ß', 'Ω', 'ж', '中', '日', '€', '😀', '𝔘', ' ', ' ', '�', '\U0010ffff', '\u0080', '߿', 'ࠀ', '￿', '\U00010000'}
var invalidPool = []string{"\xff", "\xc0", "\xc0\xaf", "\xe2\x82", "\xf0\x9f\x98", "\x80", "\xed\xa0\x80", "\xf4\x90\x80\x80", "\xfe"}

// Str returns a string of up to maxLen pieces from the chosen classes.
func (r *Rand) Str(maxLen int, multi, invalid bool) string {
	n := r.Intn(maxLen + 1)
	b := make([]byte, 0, n*2)
	for i := 0; i < n; i++ {
		c := r.Intn(10)
		switch {
		case invalid && c == 0:
			b = append(b, invalidPool[r.Intn(len(invalidPool))]...)
		case multi && c <= 2:
			b = append(b, string(multiPool[r.Intn(len(multiPool))])...)
		case c <= 5:
			b = append(b, byte('a'+r.Intn(26)))
		default:
			b = append(b, asciiPool[r.Intn(len(asciiPool))])
		}
	}
	return string(b)
}

// Ident returns a short plain identifier (never empty).
func (r *Rand) Ident(maxLen int) string {
	n := r.Range(1, maxLen)
	b := make([]byte, n)
	for i := range b {
		b[i] = byte('a' + r.Intn(26))
	}
	return string(b)
}

// Pick returns one of the given strings.
func (r *Rand) Pick(xs ...string) string { return xs[r.Intn(len(xs))] }

// Shuffle permutes a string slice in place.
func (r *Rand) ShuffleStrings(xs []string) {
	for i := len(xs) - 1; i > 0; i-- {
		j := r.Intn(i + 1)
		xs[i], xs[j] = xs[j], xs[i]
	}
}

// Perm returns a permutation of 0..n-1.
func (r *Rand) Perm(n int) []int {
	p := make([]int, n)
	for i := range p {
		p[i] = i
	}
	for i := n - 1; i > 0; i-- {
		j := r.Intn(i + 1)
		p[i], p[j] = p[j], p[i]
	}
	return p
}
