package mon

import (
	"math"
	"sort"
	"time"
	"unicode/utf8"
)

// Reference models, written from the property statements.

type PairV struct{ Lo, Hi float64 }
type PairD struct{ Lo, Hi time.Duration }

// RefPairsV: copy, sort, bounds tile the line from -MaxFloat64 to MaxFloat64.
func RefPairsV(spec []float64) []PairV {
	s := append([]float64(nil), spec...)
	sort.Float64s(s)
	out := make([]PairV, 0, len(s)+1)
	lo := -math.MaxFloat64
	for _, b := range s {
		out = append(out, PairV{lo, b})
		lo = b
	}
	out = append(out, PairV{lo, math.MaxFloat64})
	return out
}

func RefPairsD(spec []time.Duration) []PairD {
	s := append([]time.Duration(nil), spec...)
	sort.Slice(s, func(i, j int) bool { return s[i] < s[j] })
	out := make([]PairD, 0, len(s)+1)
	lo := time.Duration(math.MinInt64)
	for _, b := range s {
		out = append(out, PairD{lo, b})
		lo = b
	}
	out = append(out, PairD{lo, time.Duration(math.MaxInt64)})
	return out
}

// RefUpperV returns the smallest upper bound >= x (linear scan); +Inf counts
// in the last bucket, -Inf in the first. ok=false for NaN (any one bucket, or
// none, is acceptable).
func RefUpperV(spec []float64, x float64) (hi float64, ok bool) {
	if math.IsNaN(x) {
		return 0, false
	}
	pairs := RefPairsV(spec)
	for _, p := range pairs {
		if p.Hi >= x {
			return p.Hi, true
		}
	}
	return pairs[len(pairs)-1].Hi, true // +Inf
}

func RefUpperD(spec []time.Duration, x time.Duration) time.Duration {
	pairs := RefPairsD(spec)
	for _, p := range pairs {
		if p.Hi >= x {
			return p.Hi
		}
	}
	return pairs[len(pairs)-1].Hi
}

// RefPairIndexV returns the index of the bucket a sample is counted in: the
// first pair (in sorted order, so the leftmost among pairs with equal upper
// bounds - the only one of them whose interval (lo,hi] can contain the sample)
// whose upper bound is >= x; -1 for NaN.
func RefPairIndexV(spec []float64, x float64) int {
	if math.IsNaN(x) {
		return -1
	}
	pairs := RefPairsV(spec)
	for i, p := range pairs {
		if p.Hi >= x {
			return i
		}
	}
	return len(pairs) - 1
}

func RefPairIndexD(spec []time.Duration, x time.Duration) int {
	pairs := RefPairsD(spec)
	for i, p := range pairs {
		if p.Hi >= x {
			return i
		}
	}
	return len(pairs) - 1
}

// RefName is the left fold p=="" ? n : p+sep+n.
func RefName(prefix, sep string, parts ...string) string {
	p := prefix
	for _, n := range parts {
		if p == "" {
			p = n
		} else {
			p = p + sep + n
		}
	}
	return p
}

// RefOverlay overlays maps left to right (later wins).
func RefOverlay(maps ...map[string]string) map[string]string {
	out := map[string]string{}
	for _, m := range maps {
		for k, v := range m {
			out[k] = v
		}
	}
	return out
}

// RefValid describes one ValidCharacters option.
type RefValid struct {
	Ranges [][2]rune
	Chars  []rune
}

func (v RefValid) allowed(r rune) bool {
	for _, rg := range v.Ranges {
		if r >= rg[0] && r <= rg[1] {
			return true
		}
	}
	for _, c := range v.Chars {
		if c == r {
			return true
		}
	}
	return false
}

// RefSanitize: rune-wise; invalid bytes and not-allowed runes become rep.
func RefSanitize(v RefValid, rep rune, s string) string {
	out := make([]byte, 0, len(s))
	for i := 0; i < len(s); {
		r, w := utf8.DecodeRuneInString(s[i:])
		if r == utf8.RuneError && w <= 1 {
			out = utf8.AppendRune(out, rep)
			i++
			continue
		}
		if v.allowed(r) {
			out = append(out, s[i:i+w]...)
		} else {
			out = utf8.AppendRune(out, rep)
		}
		i += w
	}
	return string(out)
}

// TagsEqual compares two tag maps (nil == empty).
func TagsEqual(a, b map[string]string) bool {
	if len(a) != len(b) {
		return false
	}
	for k, v := range a {
		if w, ok := b[k]; !ok || w != v {
			return false
		}
	}
	return true
}
