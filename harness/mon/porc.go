package mon

import (
	"fmt"
	"reflect"
	"sync"
	"time"

	"github.com/anishathalye/porcupine"
)

// Identity history: Get(identity) -> object#, Close(object#), checked for
// linearizability against a sequential registry model, partitioned by
// identity (sound for a map).

type RegIn struct {
	Close bool
	Ident string
	Obj   int // Close: the object closed
}

// MaxObjsPerIdent bounds the object numbers the model can track.
const MaxObjsPerIdent = 256

type regState struct {
	cur     int // 0 = none
	closed  bool
	retired [4]uint64 // objects (numbered < 256 per identity) that were current once
}

// HistRecorder records call/return events from one monotonic counter and
// numbers objects by pointer identity per identity.
type HistRecorder struct {
	mu    sync.Mutex
	ops   []porcupine.Operation
	clock int64
	objs  map[string]map[uintptr]int
	keep  []interface{} // keeps every numbered object alive so that addresses are never reused
}

func NewHistRecorder() *HistRecorder { return &HistRecorder{objs: map[string]map[uintptr]int{}} }

func (h *HistRecorder) Tick() int64 {
	h.mu.Lock()
	h.clock++
	t := h.clock
	h.mu.Unlock()
	return t
}

// ObjNum numbers an object of an identity (1-based, by first appearance).
func (h *HistRecorder) ObjNum(ident string, obj interface{}) int {
	ptr := reflect.ValueOf(obj).Pointer()
	h.mu.Lock()
	defer h.mu.Unlock()
	h.keep = append(h.keep, obj)
	m := h.objs[ident]
	if m == nil {
		m = map[uintptr]int{}
		h.objs[ident] = m
	}
	n, ok := m[ptr]
	if !ok {
		n = len(m) + 1
		m[ptr] = n
	}
	return n
}

func (h *HistRecorder) Add(client int, in RegIn, call int64, out int, ret int64) {
	h.mu.Lock()
	h.ops = append(h.ops, porcupine.Operation{ClientId: client, Input: in, Call: call, Output: out, Return: ret})
	h.mu.Unlock()
}

// MaxObj returns the largest object number handed out.
func (h *HistRecorder) MaxObj() int {
	h.mu.Lock()
	defer h.mu.Unlock()
	m := 0
	for _, x := range h.objs {
		if len(x) > m {
			m = len(x)
		}
	}
	return m
}

func (h *HistRecorder) Len() int {
	h.mu.Lock()
	defer h.mu.Unlock()
	return len(h.ops)
}

var regModel = porcupine.Model{
	Partition: func(history []porcupine.Operation) [][]porcupine.Operation {
		m := map[string][]porcupine.Operation{}
		var keys []string
		for _, op := range history {
			k := op.Input.(RegIn).Ident
			if _, ok := m[k]; !ok {
				keys = append(keys, k)
			}
			m[k] = append(m[k], op)
		}
		out := make([][]porcupine.Operation, 0, len(keys))
		for _, k := range keys {
			out = append(out, m[k])
		}
		return out
	},
	Init: func() interface{} { return regState{} },
	Step: func(state, input, output interface{}) (bool, interface{}) {
		st := state.(regState)
		in := input.(RegIn)
		if in.Close {
			if in.Obj == st.cur {
				st.closed = true
			}
			return true, st
		}
		o := output.(int)
		if o <= 0 || o >= MaxObjsPerIdent {
			return false, st
		}
		if st.cur != 0 && !st.closed {
			return o == st.cur, st
		}
		// no current object, or the current one is closed: a fresh object
		if o == st.cur || st.retired[o/64]&(1<<uint(o%64)) != 0 {
			return false, st
		}
		if st.cur != 0 {
			st.retired[st.cur/64] |= 1 << uint(st.cur%64)
		}
		st.cur, st.closed = o, false
		return true, st
	},
	DescribeOperation: func(input, output interface{}) string {
		in := input.(RegIn)
		if in.Close {
			return fmt.Sprintf("Close(%s#%d)", in.Ident, in.Obj)
		}
		return fmt.Sprintf("Get(%s) -> #%d", in.Ident, output.(int))
	},
}

// Check returns "ok", "illegal" or "unknown" (timeout) and a description.
func (h *HistRecorder) Check(timeout time.Duration) (string, string) {
	h.mu.Lock()
	ops := append([]porcupine.Operation(nil), h.ops...)
	h.mu.Unlock()
	res, _ := porcupine.CheckOperationsVerbose(regModel, ops, timeout)
	switch res {
	case porcupine.Ok:
		return "ok", ""
	case porcupine.Illegal:
		// narrow the witness down to one identity
		for _, part := range regModel.Partition(ops) {
			if r, _ := porcupine.CheckOperationsVerbose(regModel, part, timeout); r == porcupine.Illegal {
				ops = part
				break
			}
		}
		s := ""
		for i, op := range ops {
			if i > 80 {
				s += "..."
				break
			}
			s += fmt.Sprintf("[c%d %d-%d %s] ", op.ClientId, op.Call, op.Return, regModel.DescribeOperation(op.Input, op.Output))
		}
		return "illegal", s
	default:
		return "unknown", ""
	}
}
