package mon

import (
	"errors"
	"math"
	"sort"
	"strconv"
	"strings"
	"sync"
	"sync/atomic"
	"time"

	tally "github.com/uber-go/tally/v4"
)

// Seq is the single logical clock of the harness: recorder events, harness
// markers and schedule-point hits all draw from it.
var Seq int64

func NextSeq() int64 { return atomic.AddInt64(&Seq, 1) }

type EvKind uint8

const (
	EvCounter EvKind = iota + 1
	EvGauge
	EvTimer
	EvHistV
	EvHistD
	EvFlush
	EvClose
	EvAllocCounter
	EvAllocGauge
	EvAllocTimer
	EvAllocHist
	EvBucketV
	EvBucketD
	EvMarker
	EvCaps
)

var evNames = map[EvKind]string{EvCounter: "counter", EvGauge: "gauge", EvTimer: "timer", EvHistV: "histv", EvHistD: "histd",
	EvFlush: "flush", EvClose: "close", EvAllocCounter: "alloc-counter", EvAllocGauge: "alloc-gauge", EvAllocTimer: "alloc-timer",
	EvAllocHist: "alloc-hist", EvBucketV: "bucketv", EvBucketD: "bucketd", EvMarker: "marker", EvCaps: "caps"}

func (k EvKind) String() string { return evNames[k] }

// Event is one observed reporter call (or harness marker).
type Event struct {
	Seq    int64
	Kind   EvKind
	Name   string
	Tags   map[string]string // deep copy taken at the call
	Key    string            // injective identity of name+tags(+bucket)
	I      int64             // counter delta / timer duration / sample count
	F      uint64            // gauge bits
	Lo, Hi float64           // value bucket bounds
	LoD    time.Duration
	HiD    time.Duration
	Spec   tally.Buckets // buckets argument as passed (not copied)
	Marker string
	Who    int // marker: harness goroutine / caller index
	Src    int // Recorder.Src of the recorder that logged the event
}

// Agg is the running aggregate per metric identity.
type Agg struct {
	Sum      int64 // wrapping sum of deliveries
	N        int64
	Neg      int64
	Zero     int64
	LastBits uint64
	LastSeq  int64
}

// Recorder is the shared event sink of the recording reporters.
type Recorder struct {
	mu      sync.Mutex
	KeepLog bool
	Log     []Event
	Agg     map[string]*Agg
	Counts  map[EvKind]int64
	// Delay, if set, is called at the start of every reporter call (outside
	// the recorder lock): reporter calls are real suspension points.
	Delay func(k EvKind)
	// CloseErr is returned by Close of the closer variants.
	CloseErr error
	Caps     tally.Capabilities
	// Src is copied into every event (tells two recorders' merged logs apart).
	Src int
}

func NewRecorder(keepLog bool) *Recorder {
	return &Recorder{KeepLog: keepLog, Agg: map[string]*Agg{}, Counts: map[EvKind]int64{}}
}

// IdentKey is an injective encoding of (name, tags).
func IdentKey(name string, tags map[string]string) string {
	var sb strings.Builder
	writeLP(&sb, name)
	keys := make([]string, 0, len(tags))
	for k := range tags {
		keys = append(keys, k)
	}
	sort.Strings(keys)
	for _, k := range keys {
		writeLP(&sb, k)
		writeLP(&sb, tags[k])
	}
	return sb.String()
}

func writeLP(sb *strings.Builder, s string) {
	sb.WriteString(strconv.Itoa(len(s)))
	sb.WriteByte(':')
	sb.WriteString(s)
}

func CopyTags(t map[string]string) map[string]string {
	if t == nil {
		return nil
	}
	c := make(map[string]string, len(t))
	for k, v := range t {
		c[k] = v
	}
	return c
}

func (r *Recorder) add(ev Event) int64 {
	if d := r.Delay; d != nil {
		d(ev.Kind)
	}
	r.mu.Lock()
	ev.Seq = NextSeq()
	ev.Src = r.Src
	r.Counts[ev.Kind]++
	switch ev.Kind {
	case EvCounter, EvGauge, EvTimer, EvHistV, EvHistD:
		a := r.Agg[ev.Key]
		if a == nil {
			a = &Agg{}
			r.Agg[ev.Key] = a
		}
		a.N++
		a.Sum += ev.I
		if ev.I < 0 {
			a.Neg++
		}
		if ev.I == 0 && ev.Kind != EvGauge {
			a.Zero++
		}
		a.LastBits = ev.F
		a.LastSeq = ev.Seq
	}
	if r.KeepLog {
		r.Log = append(r.Log, ev)
	}
	r.mu.Unlock()
	return ev.Seq
}

// Mark appends a harness marker and returns its sequence number.
func (r *Recorder) Mark(m string, who int) int64 {
	r.mu.Lock()
	seq := NextSeq()
	if r.KeepLog {
		r.Log = append(r.Log, Event{Seq: seq, Kind: EvMarker, Marker: m, Who: who})
	}
	r.mu.Unlock()
	return seq
}

// MarkV appends a harness marker carrying a value.
func (r *Recorder) MarkV(m string, who int, v int64) int64 {
	r.mu.Lock()
	seq := NextSeq()
	if r.KeepLog {
		r.Log = append(r.Log, Event{Seq: seq, Kind: EvMarker, Marker: m, Who: who, I: v})
	}
	r.mu.Unlock()
	return seq
}

// Snapshot returns a copy of the log and aggregates.
func (r *Recorder) Snapshot() ([]Event, map[string]Agg, map[EvKind]int64) {
	r.mu.Lock()
	defer r.mu.Unlock()
	l := make([]Event, len(r.Log))
	copy(l, r.Log)
	a := make(map[string]Agg, len(r.Agg))
	for k, v := range r.Agg {
		a[k] = *v
	}
	c := make(map[EvKind]int64, len(r.Counts))
	for k, v := range r.Counts {
		c[k] = v
	}
	return l, a, c
}

func (r *Recorder) LogLen() int {
	r.mu.Lock()
	defer r.mu.Unlock()
	return len(r.Log)
}

func (r *Recorder) GetAgg(key string) Agg {
	r.mu.Lock()
	defer r.mu.Unlock()
	if a := r.Agg[key]; a != nil {
		return *a
	}
	return Agg{}
}

func (r *Recorder) Count(k EvKind) int64 {
	r.mu.Lock()
	defer r.mu.Unlock()
	return r.Counts[k]
}

func (r *Recorder) Reset() {
	r.mu.Lock()
	r.Log = nil
	r.Agg = map[string]*Agg{}
	r.Counts = map[EvKind]int64{}
	r.mu.Unlock()
}

func bucketKeyV(base string, lo, hi float64) string {
	return base + "|v" + strconv.FormatUint(math.Float64bits(lo), 16) + "," + strconv.FormatUint(math.Float64bits(hi), 16)
}
func bucketKeyD(base string, lo, hi time.Duration) string {
	return base + "|d" + strconv.FormatInt(int64(lo), 10) + "," + strconv.FormatInt(int64(hi), 10)
}

// BucketKeyV / BucketKeyD are the aggregate keys of histogram buckets.
func BucketKeyV(name string, tags map[string]string, lo, hi float64) string {
	return bucketKeyV(IdentKey(name, tags), lo, hi)
}
func BucketKeyD(name string, tags map[string]string, lo, hi time.Duration) string {
	return bucketKeyD(IdentKey(name, tags), lo, hi)
}

type caps struct{ r, t bool }

func (c caps) Reporting() bool { return c.r }
func (c caps) Tagging() bool   { return c.t }

// Caps builds a Capabilities value.
func Caps(reporting, tagging bool) tally.Capabilities { return caps{reporting, tagging} }

func (r *Recorder) capabilities() tally.Capabilities {
	if r.Caps != nil {
		return r.Caps
	}
	return caps{true, true}
}

// ---------------------------------------------------------------------------
// Plain recording reporter.

type PlainRec struct{ *Recorder }

func NewPlainRec(keepLog bool) *PlainRec { return &PlainRec{NewRecorder(keepLog)} }

func (p *PlainRec) ReportCounter(name string, tags map[string]string, value int64) {
	p.add(Event{Kind: EvCounter, Name: name, Tags: CopyTags(tags), Key: IdentKey(name, tags), I: value})
}
func (p *PlainRec) ReportGauge(name string, tags map[string]string, value float64) {
	p.add(Event{Kind: EvGauge, Name: name, Tags: CopyTags(tags), Key: IdentKey(name, tags), F: math.Float64bits(value)})
}
func (p *PlainRec) ReportTimer(name string, tags map[string]string, interval time.Duration) {
	p.add(Event{Kind: EvTimer, Name: name, Tags: CopyTags(tags), Key: IdentKey(name, tags), I: int64(interval)})
}
func (p *PlainRec) ReportHistogramValueSamples(name string, tags map[string]string, buckets tally.Buckets, lo, hi float64, samples int64) {
	p.add(Event{Kind: EvHistV, Name: name, Tags: CopyTags(tags), Key: bucketKeyV(IdentKey(name, tags), lo, hi), I: samples, Lo: lo, Hi: hi, Spec: buckets})
}
func (p *PlainRec) ReportHistogramDurationSamples(name string, tags map[string]string, buckets tally.Buckets, lo, hi time.Duration, samples int64) {
	p.add(Event{Kind: EvHistD, Name: name, Tags: CopyTags(tags), Key: bucketKeyD(IdentKey(name, tags), lo, hi), I: samples, LoD: lo, HiD: hi, Spec: buckets})
}
func (p *PlainRec) Capabilities() tally.Capabilities { return p.capabilities() }
func (p *PlainRec) Flush()                           { p.add(Event{Kind: EvFlush}) }

// PlainRecCloser additionally implements io.Closer.
type PlainRecCloser struct{ *PlainRec }

func (p PlainRecCloser) Close() error {
	p.add(Event{Kind: EvClose})
	return p.CloseErr
}

// ---------------------------------------------------------------------------
// Cached recording reporter.

type CachedRec struct{ *Recorder }

func NewCachedRec(keepLog bool) *CachedRec { return &CachedRec{NewRecorder(keepLog)} }

type cachedHandle struct {
	r    *Recorder
	kind EvKind
	name string
	tags map[string]string
	key  string
}

func (h *cachedHandle) ReportCount(v int64) {
	h.r.add(Event{Kind: EvCounter, Name: h.name, Tags: h.tags, Key: h.key, I: v})
}
func (h *cachedHandle) ReportGauge(v float64) {
	h.r.add(Event{Kind: EvGauge, Name: h.name, Tags: h.tags, Key: h.key, F: math.Float64bits(v)})
}
func (h *cachedHandle) ReportTimer(d time.Duration) {
	h.r.add(Event{Kind: EvTimer, Name: h.name, Tags: h.tags, Key: h.key, I: int64(d)})
}

func (c *CachedRec) alloc(k EvKind, name string, tags map[string]string, spec tally.Buckets) *cachedHandle {
	t := CopyTags(tags)
	key := IdentKey(name, tags)
	c.add(Event{Kind: k, Name: name, Tags: t, Key: key, Spec: spec})
	return &cachedHandle{r: c.Recorder, name: name, tags: t, key: key}
}

func (c *CachedRec) AllocateCounter(name string, tags map[string]string) tally.CachedCount {
	return c.alloc(EvAllocCounter, name, tags, nil)
}
func (c *CachedRec) AllocateGauge(name string, tags map[string]string) tally.CachedGauge {
	return c.alloc(EvAllocGauge, name, tags, nil)
}
func (c *CachedRec) AllocateTimer(name string, tags map[string]string) tally.CachedTimer {
	return c.alloc(EvAllocTimer, name, tags, nil)
}

type cachedHist struct{ h *cachedHandle }

type cachedBucket struct {
	h      *cachedHandle
	key    string
	isDur  bool
	lo, hi float64
	loD    time.Duration
	hiD    time.Duration
}

func (b *cachedBucket) ReportSamples(v int64) {
	k := EvHistV
	if b.isDur {
		k = EvHistD
	}
	b.h.r.add(Event{Kind: k, Name: b.h.name, Tags: b.h.tags, Key: b.key, I: v, Lo: b.lo, Hi: b.hi, LoD: b.loD, HiD: b.hiD})
}

func (c *CachedRec) AllocateHistogram(name string, tags map[string]string, buckets tally.Buckets) tally.CachedHistogram {
	return cachedHist{c.alloc(EvAllocHist, name, tags, buckets)}
}

func (h cachedHist) ValueBucket(lo, hi float64) tally.CachedHistogramBucket {
	h.h.r.add(Event{Kind: EvBucketV, Name: h.h.name, Tags: h.h.tags, Key: h.h.key, Lo: lo, Hi: hi})
	return &cachedBucket{h: h.h, key: bucketKeyV(h.h.key, lo, hi), lo: lo, hi: hi}
}
func (h cachedHist) DurationBucket(lo, hi time.Duration) tally.CachedHistogramBucket {
	h.h.r.add(Event{Kind: EvBucketD, Name: h.h.name, Tags: h.h.tags, Key: h.h.key, LoD: lo, HiD: hi})
	return &cachedBucket{h: h.h, key: bucketKeyD(h.h.key, lo, hi), isDur: true, loD: lo, hiD: hi}
}

func (c *CachedRec) Capabilities() tally.Capabilities { return c.capabilities() }
func (c *CachedRec) Flush()                           { c.add(Event{Kind: EvFlush}) }

// CachedRecCloser additionally implements io.Closer.
type CachedRecCloser struct{ *CachedRec }

func (c CachedRecCloser) Close() error {
	c.add(Event{Kind: EvClose})
	return c.CloseErr
}

// ErrRecClose is the error returned by closers configured to fail.
var ErrRecClose = errors.New("recorder close error")
