package mon

import (
	"fmt"
	"runtime"
	"sort"
	"strings"
	"sync"
	"sync/atomic"
	"time"

	tally "github.com/uber-go/tally/v4"
)

// Goid returns the id of the calling goroutine (parsed from runtime.Stack).
func Goid() int64 {
	var buf [64]byte
	n := runtime.Stack(buf[:], false)
	// "goroutine 123 [running]:"
	s := buf[:n]
	const p = "goroutine "
	if len(s) < len(p) {
		return -1
	}
	var id int64
	for _, ch := range s[len(p):] {
		if ch < '0' || ch > '9' {
			break
		}
		id = id*10 + int64(ch-'0')
	}
	return id
}

const numPoints = int(tally.VerifNumPoints) + 4

// Extra harness-level yield points.
const (
	PtOp = int(tally.VerifNumPoints) + iota // between harness operations
	PtStart
)

func PointName(id int) string {
	switch id {
	case PtOp:
		return "op"
	case PtStart:
		return "start"
	}
	return tally.VerifPointName(id)
}

// ---------------------------------------------------------------------------
// Interleaving statistics shared by both modes.

const ringSize = 1 << 14

type PointStats struct {
	hits        [numPoints]int64
	interleaved [numPoints]int64 // windows ending at this point in which other goroutines hit points
	hseq        int64
	ring        [ringSize]int32
	gmu         sync.Mutex
	gstate      map[int64]*gState
	sigmu       sync.Mutex
	sigs        map[string]struct{}
	TrackSigs   bool
}

type gState struct {
	lastPoint int
	lastSeq   int64
}

func NewPointStats(trackSigs bool) *PointStats {
	return &PointStats{gstate: map[int64]*gState{}, sigs: map[string]struct{}{}, TrackSigs: trackSigs}
}

// hit records one schedule-point hit by goroutine gid.
func (ps *PointStats) hit(gid int64, id int) {
	if id < 0 || id >= numPoints {
		return
	}
	atomic.AddInt64(&ps.hits[id], 1)
	seq := atomic.AddInt64(&ps.hseq, 1)
	atomic.StoreInt32(&ps.ring[seq%ringSize], int32(id))
	if !ps.TrackSigs {
		return
	}
	ps.gmu.Lock()
	g := ps.gstate[gid]
	if g == nil {
		g = &gState{lastPoint: -1}
		ps.gstate[gid] = g
	}
	prevP, prevS := g.lastPoint, g.lastSeq
	g.lastPoint, g.lastSeq = id, seq
	ps.gmu.Unlock()
	if prevP >= 0 && seq-prevS > 1 && seq-prevS < ringSize/2 {
		atomic.AddInt64(&ps.interleaved[id], 1)
		seen := map[int32]bool{}
		n := seq - prevS - 1
		if n > 48 {
			n = 48
		}
		for s := prevS + 1; s <= prevS+n; s++ {
			seen[atomic.LoadInt32(&ps.ring[s%ringSize])] = true
		}
		fs := make([]int, 0, len(seen))
		for k := range seen {
			fs = append(fs, int(k))
		}
		sort.Ints(fs)
		sig := fmt.Sprintf("%d>%d:%v", prevP, id, fs)
		ps.sigmu.Lock()
		ps.sigs[sig] = struct{}{}
		ps.sigmu.Unlock()
	}
}

// Report returns hits and interleaved windows per point and the signatures.
func (ps *PointStats) Report() (hits, inter map[string]int64, sigs []string) {
	hits, inter = map[string]int64{}, map[string]int64{}
	for i := 0; i < numPoints; i++ {
		if h := atomic.LoadInt64(&ps.hits[i]); h > 0 {
			hits[PointName(i)] = h
		}
		if h := atomic.LoadInt64(&ps.interleaved[i]); h > 0 {
			inter[PointName(i)] = h
		}
	}
	ps.sigmu.Lock()
	for s := range ps.sigs {
		sigs = append(sigs, s)
	}
	ps.sigmu.Unlock()
	sort.Strings(sigs)
	return
}

// SigName renders a signature "a>b:[..]" with point names.
func SigName(sig string) string {
	var a, b int
	var rest string
	if n, _ := fmt.Sscanf(sig, "%d>%d:%s", &a, &b, &rest); n >= 2 {
		i := strings.Index(sig, ":")
		inner := strings.Trim(sig[i+1:], "[]")
		var names []string
		for _, f := range strings.Fields(inner) {
			var x int
			fmt.Sscanf(f, "%d", &x)
			names = append(names, PointName(x))
		}
		return PointName(a) + ">" + PointName(b) + ":" + strings.Join(names, ",")
	}
	return sig
}

// ---------------------------------------------------------------------------
// Tier A: delay injection.

type DelayProfile struct {
	// per point: probability (out of 1000) of doing something at a hit
	Prob [numPoints]int
	// maximal action strength: 0 gosched only, 1 +spin, 2 +sleep
	Strength int
}

type DelayInjector struct {
	Stats   *PointStats
	seed    uint64
	prof    DelayProfile
	counter [numPoints]uint64
	Off     int32
}

func NewDelayInjector(seed uint64, prof DelayProfile, trackSigs bool) *DelayInjector {
	return &DelayInjector{Stats: NewPointStats(trackSigs), seed: seed, prof: prof}
}

// RandomProfile stresses one or two points heavily (the PCT idea) and the
// others lightly.
func RandomProfile(r *Rand, candidates []int, strength int) DelayProfile {
	var p DelayProfile
	p.Strength = strength
	for _, c := range candidates {
		p.Prob[c] = r.Range(0, 30)
	}
	for k := 0; k < 1+r.Intn(2) && len(candidates) > 0; k++ {
		p.Prob[candidates[r.Intn(len(candidates))]] = r.Range(150, 700)
	}
	return p
}

func spin(d time.Duration) {
	t0 := time.Now()
	for time.Since(t0) < d {
	}
}

// Hook is installed with tally.VerifSetHook.
func (d *DelayInjector) Hook(id int) {
	if id < 0 || id >= numPoints {
		return
	}
	if id == int(tally.VerifCtrBeforeAdd) {
		// the hottest point (every counter increment): counted, delayed when the
		// profile says so, but kept out of the interleaving signatures (finding
		// the goroutine id costs a stack walk)
		atomic.AddInt64(&d.Stats.hits[id], 1)
	} else {
		gid := int64(0)
		if d.Stats.TrackSigs {
			gid = Goid()
		}
		d.Stats.hit(gid, id)
	}
	if atomic.LoadInt32(&d.Off) != 0 {
		return
	}
	p := d.prof.Prob[id]
	if p == 0 {
		return
	}
	n := atomic.AddUint64(&d.counter[id], 1)
	z := mix(d.seed ^ mix(uint64(id)<<32^n))
	if int(z%1000) >= p {
		return
	}
	z = mix(z)
	switch k := int(z % 10); {
	case k < 5 || d.prof.Strength == 0:
		for i := 0; i < 1+int(z>>8%4); i++ {
			runtime.Gosched()
		}
	case k < 8 || d.prof.Strength == 1:
		spin(time.Duration(1+z>>8%50) * time.Microsecond)
	default:
		time.Sleep(time.Duration(100+z>>8%200) * time.Microsecond)
	}
}

func (d *DelayInjector) Install()   { tally.VerifSetHook(d.Hook) }
func (d *DelayInjector) Uninstall() { tally.VerifSetHook(nil) }

// ---------------------------------------------------------------------------
// Tier B: deterministic token scheduler for non-blocking paths.

type TraceStep struct {
	W int // worker index
	P int // point at which the worker was parked when it was resumed
}

type tokWorker struct {
	idx    int
	gid    int64
	resume chan struct{}
	parked int // point id
	done   bool
}

type tokEvent struct {
	w    *tokWorker
	p    int
	done bool
}

type TokenSched struct {
	r       *Rand
	mu      sync.RWMutex
	byGid   map[int64]*tokWorker
	workers []*tokWorker
	events  chan tokEvent
	Trace   []TraceStep
	Sticky  int // out of 100: probability to keep running the same worker
	Foreign int // trace steps in which a worker ran between two points of another worker's critical window (computed by caller)
	hits    [numPoints]int64
}

func NewTokenSched(r *Rand) *TokenSched {
	return &TokenSched{r: r, byGid: map[int64]*tokWorker{}, events: make(chan tokEvent)}
}

// Hook is installed with tally.VerifSetHook: registered goroutines park,
// others pass through.
func (t *TokenSched) Hook(id int) {
	gid := Goid()
	t.mu.RLock()
	w := t.byGid[gid]
	t.mu.RUnlock()
	if w == nil {
		return
	}
	t.hits[id]++
	t.events <- tokEvent{w: w, p: id}
	<-w.resume
}

// Yield is an explicit harness-level yield point.
func (t *TokenSched) Yield() { t.Hook(PtOp) }

// Run executes the worker functions under the token scheduler: exactly one
// runs at any time, the next one is chosen by the PRNG at every schedule
// point. It returns when all have finished.
func (t *TokenSched) Run(fns []func()) {
	n := len(fns)
	t.workers = make([]*tokWorker, n)
	for i := range fns {
		w := &tokWorker{idx: i, resume: make(chan struct{})}
		t.workers[i] = w
		fn := fns[i]
		go func() {
			w.gid = Goid()
			t.mu.Lock()
			t.byGid[w.gid] = w
			t.mu.Unlock()
			t.events <- tokEvent{w: w, p: PtStart}
			<-w.resume
			defer func() {
				t.mu.Lock()
				delete(t.byGid, w.gid)
				t.mu.Unlock()
				t.events <- tokEvent{w: w, done: true}
			}()
			fn()
		}()
	}
	live := 0
	for live < n {
		ev := <-t.events
		ev.w.parked = ev.p
		live++
	}
	last := -1
	for live > 0 {
		var cands []*tokWorker
		for _, w := range t.workers {
			if !w.done {
				cands = append(cands, w)
			}
		}
		var pick *tokWorker
		if last >= 0 && !t.workers[last].done && t.r.Intn(100) < t.Sticky {
			pick = t.workers[last]
		} else {
			pick = cands[t.r.Intn(len(cands))]
		}
		t.Trace = append(t.Trace, TraceStep{W: pick.idx, P: pick.parked})
		last = pick.idx
		pick.resume <- struct{}{}
		ev := <-t.events
		if ev.done {
			ev.w.done = true
			live--
		} else {
			ev.w.parked = ev.p
		}
	}
}

// TraceString renders the schedule trace.
func (t *TokenSched) TraceString() string {
	var sb strings.Builder
	for i, s := range t.Trace {
		if i > 0 {
			sb.WriteByte(' ')
		}
		fmt.Fprintf(&sb, "%d@%s", s.W, PointName(s.P))
	}
	return sb.String()
}

// Switches counts context switches at library schedule points (not at
// harness operation boundaries): the non-trivial part of a trace.
func (t *TokenSched) Switches() int {
	n := 0
	// replay: after step i, worker W runs until its next park; that park point
	// is the P of W's next appearance in the trace.
	next := make([]int, len(t.Trace))
	lastIdx := map[int]int{}
	for i := len(t.Trace) - 1; i >= 0; i-- {
		if j, ok := lastIdx[t.Trace[i].W]; ok {
			next[i] = t.Trace[j].P
		} else {
			next[i] = -1 // ran to completion
		}
		lastIdx[t.Trace[i].W] = i
	}
	for i := 0; i+1 < len(t.Trace); i++ {
		if next[i] >= 0 && next[i] != PtOp && next[i] != PtStart && t.Trace[i+1].W != t.Trace[i].W {
			n++
		}
	}
	return n
}
