// Package mon holds the shared monitoring infrastructure of the harness:
// PRNG, result/evidence collection, recording reporters, reference models,
// schedule-point drivers.
package mon

import (
	"encoding/binary"
	"encoding/json"
	"fmt"
	"hash/fnv"
	"os"
	"runtime"
	"runtime/debug"
	"sort"
	"strconv"
	"sync"
	"sync/atomic"
	"time"
)

// ---------------------------------------------------------------------------
// PRNG: splitmix64. Every random choice in the harness comes from a Rand
// derived from (VERIF_SEED, property, batch, case[, goroutine]).

type Rand struct{ s uint64 }

func mix(z uint64) uint64 {
	z += 0x9e3779b97f4a7c15
	z = (z ^ (z >> 30)) * 0xbf58476d1ce4e5b9
	z = (z ^ (z >> 27)) * 0x94d049bb133111eb
	return z ^ (z >> 31)
}

// NewRand derives a generator from a list of integers.
func NewRand(parts ...uint64) *Rand {
	s := uint64(0x243f6a8885a308d3)
	for _, p := range parts {
		s = mix(s ^ mix(p))
	}
	return &Rand{s: s}
}

func (r *Rand) U64() uint64 {
	r.s += 0x9e3779b97f4a7c15
	z := r.s
	z = (z ^ (z >> 30)) * 0xbf58476d1ce4e5b9
	z = (z ^ (z >> 27)) * 0x94d049bb133111eb
	return z ^ (z >> 31)
}

// Intn returns a value in [0,n).
func (r *Rand) Intn(n int) int {
	if n <= 1 {
		return 0
	}
	return int(r.U64() % uint64(n))
}

// Range returns a value in [lo,hi].
func (r *Rand) Range(lo, hi int) int { return lo + r.Intn(hi-lo+1) }

func (r *Rand) Bool() bool { return r.U64()&1 == 1 }

// Chance returns true with probability num/den.
func (r *Rand) Chance(num, den int) bool { return r.Intn(den) < num }

func (r *Rand) Float() float64 { return float64(r.U64()>>11) / float64(1<<53) }

// Fork derives an independent generator.
func (r *Rand) Fork(tag uint64) *Rand { return NewRand(r.U64(), tag) }

// Hash64 hashes a list of strings injectively enough for distinct counting.
func Hash64(parts ...string) uint64 {
	h := fnv.New64a()
	var l [8]byte
	for _, p := range parts {
		binary.LittleEndian.PutUint64(l[:], uint64(len(p)))
		h.Write(l[:])
		h.Write([]byte(p))
	}
	return h.Sum64()
}

// ---------------------------------------------------------------------------
// Result collection.

type Violation struct {
	Sig    string      `json:"sig"`    // signature class, matched against known_findings.json by the driver
	Case   string      `json:"case"`   // seed/batch/case locator
	Detail interface{} `json:"detail"` // witness
}

type Result struct {
	Property     string                 `json:"property"`
	Seed         uint64                 `json:"seed"`
	Batch        int                    `json:"batch"`
	NBatch       int                    `json:"nbatch"`
	Tier         string                 `json:"tier"`
	Race         bool                   `json:"race"`
	Evaluations  int64                  `json:"evaluations"`
	Distinct     int64                  `json:"distinct"` // distinct non-trivial in this batch
	DistinctFile string                 `json:"distinct_file,omitempty"`
	Events       map[string]int64       `json:"events"`
	Classes      map[string]int64       `json:"classes"`
	Samples      []interface{}          `json:"samples"`
	Violations   []Violation            `json:"violations"`
	NViolations  int64                  `json:"nviolations"`
	Inconclusive []string               `json:"inconclusive"`
	Extra        map[string]interface{} `json:"extra,omitempty"`
	Done         bool                   `json:"done"`
}

// Ctx is handed to every check.
type Ctx struct {
	Prop    string
	Seed    uint64
	Batch   int
	NBatch  int
	Tier    string
	N       int // planned cases for this batch
	Only    int // -1, or the single case to run (replay)
	Verbose bool
	Race    bool
	Phase   string // name of the plan phase this child belongs to (salts the PRNG unless it is the first, unnamed-salt phase)
	OutPath string
	LogPath string

	mu       sync.Mutex
	res      Result
	distinct map[uint64]struct{}
	sigCount map[string]int
	curCase  string
	logf     *os.File
	trial    bool
	trialVs  []Violation
}

const maxViolationsKept = 8 // per signature
const maxSamples = 4

func NewCtx(prop string, seed uint64, batch, nbatch int, tier string, n int) *Ctx {
	c := &Ctx{Prop: prop, Seed: seed, Batch: batch, NBatch: nbatch, Tier: tier, N: n, Only: -1}
	c.res = Result{Property: prop, Seed: seed, Batch: batch, NBatch: nbatch, Tier: tier,
		Events: map[string]int64{}, Classes: map[string]int64{}, Extra: map[string]interface{}{}}
	c.distinct = map[uint64]struct{}{}
	c.sigCount = map[string]int{}
	return c
}

// PropNum gives a stable integer for the property id, for seeding.
func (c *Ctx) propNum() uint64 { return Hash64(c.Prop) }

// CaseRand is the generator for case i of this batch.
func (c *Ctx) CaseRand(i int) *Rand {
	if c.Phase != "" {
		// every phase of a check draws its own cases (a race phase would
		// otherwise repeat the first batches of the plain phase)
		return NewRand(c.Seed, c.propNum(), uint64(c.Batch), uint64(i), Hash64(c.Phase))
	}
	return NewRand(c.Seed, c.propNum(), uint64(c.Batch), uint64(i))
}

// Cases iterates the planned cases (or only the replayed one).
func (c *Ctx) Cases(f func(i int, r *Rand)) {
	if c.Only >= 0 {
		c.setCase(c.Only)
		f(c.Only, c.CaseRand(c.Only))
		return
	}
	// bounded progress for every check: one case (the longest take seconds) that
	// has not finished after ten minutes is a hang of the code under test - a
	// loop that makes no progress, a lock never released - and is recorded as a
	// violation with the goroutine dump; the driver's external watchdog (15
	// minutes and more) would only make the run inconclusive.
	var started, index int64
	done := make(chan struct{})
	defer close(done)
	go func() {
		t := time.NewTicker(5 * time.Second)
		defer t.Stop()
		for {
			select {
			case <-done:
				return
			case <-t.C:
				if st := atomic.LoadInt64(&started); st != 0 && time.Since(time.Unix(0, st)) > 10*time.Minute {
					buf := make([]byte, 1<<20)
					n := runtime.Stack(buf, true)
					c.violation("case-does-not-finish", map[string]interface{}{"why": fmt.Sprintf("case %d of this batch has been running for more than ten minutes; goroutine dump attached", atomic.LoadInt64(&index)), "goroutines": trimDump(string(buf[:n]))}, true)
					c.Finish()
					os.Exit(1)
				}
			}
		}
	}()
	for i := 0; i < c.N; i++ {
		c.setCase(i)
		atomic.StoreInt64(&index, int64(i))
		atomic.StoreInt64(&started, time.Now().UnixNano())
		f(i, c.CaseRand(i))
	}
	atomic.StoreInt64(&started, 0)
}

func (c *Ctx) setCase(i int) {
	c.mu.Lock()
	c.curCase = fmt.Sprintf("seed=%d batch=%d/%d case=%d", c.Seed, c.Batch, c.NBatch, i)
	c.mu.Unlock()
}

// CaseLoc returns the locator of the running case.
func (c *Ctx) CaseLoc() string {
	c.mu.Lock()
	defer c.mu.Unlock()
	return c.curCase
}

// LogCase writes the case about to be run to the child's log so that a fatal,
// unrecoverable runtime error is attributable.
func (c *Ctx) LogCase(desc string) {
	if c.LogPath == "" {
		return
	}
	c.mu.Lock()
	defer c.mu.Unlock()
	if c.logf == nil {
		f, err := os.OpenFile(c.LogPath, os.O_CREATE|os.O_WRONLY|os.O_TRUNC, 0o644)
		if err != nil {
			return
		}
		c.logf = f
	}
	c.logf.Seek(0, 0)
	c.logf.Truncate(0)
	fmt.Fprintf(c.logf, "%s %s\n", c.curCase, desc)
}

func (c *Ctx) Eval(n int) {
	c.mu.Lock()
	c.res.Evaluations += int64(n)
	c.mu.Unlock()
}

// Distinct records the hash of a non-trivial case.
func (c *Ctx) Distinct(h uint64) {
	c.mu.Lock()
	c.distinct[h] = struct{}{}
	c.mu.Unlock()
}

func (c *Ctx) Event(kind string, n int64) {
	c.mu.Lock()
	c.res.Events[kind] += n
	c.mu.Unlock()
}

func (c *Ctx) Class(kind string, n int64) {
	c.mu.Lock()
	c.res.Classes[kind] += n
	c.mu.Unlock()
}

func (c *Ctx) Sample(x interface{}) {
	c.mu.Lock()
	if len(c.res.Samples) < maxSamples {
		c.res.Samples = append(c.res.Samples, SafeJSON(x))
	}
	c.mu.Unlock()
}

func (c *Ctx) WantSample() bool {
	c.mu.Lock()
	defer c.mu.Unlock()
	return len(c.res.Samples) < maxSamples
}

func (c *Ctx) SetExtra(k string, v interface{}) {
	c.mu.Lock()
	c.res.Extra[k] = v
	c.mu.Unlock()
}

func (c *Ctx) Inconclusive(reason string) {
	c.mu.Lock()
	if len(c.res.Inconclusive) < 50 {
		c.res.Inconclusive = append(c.res.Inconclusive, c.curCase+" "+reason)
	}
	c.res.Classes["inconclusive"]++
	c.mu.Unlock()
}

// Violation records a refutation with its witness.
func (c *Ctx) Violation(sig string, detail interface{}) { c.violation(sig, detail, false) }

func (c *Ctx) violation(sig string, detail interface{}, now bool) {
	c.mu.Lock()
	defer c.mu.Unlock()
	if c.trial && !now {
		c.trialVs = append(c.trialVs, Violation{Sig: sig, Case: c.curCase, Detail: detail})
		return
	}
	c.res.NViolations++
	c.sigCount[sig]++
	if c.sigCount[sig] <= maxViolationsKept {
		c.res.Violations = append(c.res.Violations, Violation{Sig: sig, Case: c.curCase, Detail: SafeJSON(detail)})
	}
	if c.Verbose {
		b, _ := json.MarshalIndent(detail, "", " ")
		fmt.Fprintf(os.Stderr, "VIOLATION sig=%s %s\n%s\n", sig, c.curCase, b)
	}
}

// Replayed is for deterministic, single-goroutine cases whose only source of
// nondeterminism is the network between the code under test and the harness's
// UDP sink (loopback datagrams can be reordered between CPUs or be lost without
// the socket's drop counter moving). f is run with a copy of r; if it records
// violations it is run again, twice, from the same generator state, and only
// signatures that all three executions produce are recorded (with the first
// execution's witness). A real defect on such a path reproduces every time; an
// anomaly that does not is counted and reported in the evidence instead.
func (c *Ctx) Replayed(r *Rand, f func(r *Rand)) {
	start := *r
	var first []Violation
	common := map[string]bool{}
	for try := 0; try < 3; try++ {
		rr := start
		c.mu.Lock()
		c.trial, c.trialVs = true, nil
		c.mu.Unlock()
		f(&rr)
		c.mu.Lock()
		vs := c.trialVs
		c.trial, c.trialVs = false, nil
		c.mu.Unlock()
		if try == 0 {
			*r = rr
			if len(vs) == 0 {
				return
			}
			first = vs
			for _, v := range vs {
				common[v.Sig] = true
			}
			continue
		}
		now := map[string]bool{}
		for _, v := range vs {
			now[v.Sig] = true
		}
		for sig := range common {
			if !now[sig] {
				delete(common, sig)
			}
		}
		if len(common) == 0 {
			break
		}
	}
	dropped := map[string]bool{}
	for _, v := range first {
		if common[v.Sig] {
			c.Violation(v.Sig, v.Detail)
		} else if !dropped[v.Sig] {
			dropped[v.Sig] = true
			c.Class("anomaly-not-reproduced-on-replay/"+v.Sig, 1)
		}
	}
}

func (c *Ctx) NViolations() int64 {
	c.mu.Lock()
	defer c.mu.Unlock()
	return c.res.NViolations
}

// Guard runs f and turns a panic into a violation with the given signature
// prefix; it reports whether f panicked.
func (c *Ctx) Guard(sig string, detail func() interface{}, f func()) (panicked bool) {
	defer func() {
		if p := recover(); p != nil {
			panicked = true
			var d interface{}
			if detail != nil {
				d = detail()
			}
			c.Violation(sig, map[string]interface{}{
				"panic": fmt.Sprint(p),
				"stack": trimStack(string(debug.Stack())),
				"case":  d,
			})
		}
	}()
	f()
	return false
}

func trimStack(s string) string {
	if len(s) > 6000 {
		return s[:6000]
	}
	return s
}

// Finish writes the result file.
func (c *Ctx) Finish() error {
	c.mu.Lock()
	defer c.mu.Unlock()
	c.res.Distinct = int64(len(c.distinct))
	c.res.Race = c.Race
	c.res.Done = true
	if c.OutPath == "" {
		b, _ := json.MarshalIndent(c.res, "", " ")
		fmt.Println(string(b))
		return nil
	}
	// distinct hashes, for the union across batches (capped)
	hs := make([]uint64, 0, len(c.distinct))
	for h := range c.distinct {
		hs = append(hs, h)
	}
	sort.Slice(hs, func(i, j int) bool { return hs[i] < hs[j] })
	const cap = 400000
	if len(hs) > cap {
		hs = hs[:cap]
	}
	buf := make([]byte, 8*len(hs))
	for i, h := range hs {
		binary.LittleEndian.PutUint64(buf[8*i:], h)
	}
	c.res.DistinctFile = c.OutPath + ".distinct"
	if err := os.WriteFile(c.res.DistinctFile, buf, 0o644); err != nil {
		return err
	}
	b, err := json.Marshal(c.res)
	if err != nil {
		return err
	}
	return os.WriteFile(c.OutPath, b, 0o644)
}

// Watchdog is the bounded-progress form of "does not deadlock / returns": if
// the returned stop function has not been called after d (chosen >= 100x the
// normal duration of the guarded section), a violation with the goroutine dump
// is recorded and the child exits, since a wedged library cannot be driven any
// further. An external watchdog kill, by contrast, is inconclusive.
func (c *Ctx) Watchdog(d time.Duration, sig string, desc interface{}) (stop func()) {
	if v := os.Getenv("VERIF_WATCHDOG_S"); v != "" { // experiments only
		if n, err := strconv.Atoi(v); err == nil && n > 0 {
			d = time.Duration(n) * time.Second
		}
	}
	done := make(chan struct{})
	var once sync.Once
	go func() {
		select {
		case <-done:
		case <-time.After(d):
			buf := make([]byte, 1<<20)
			n := runtime.Stack(buf, true)
			c.violation(sig, map[string]interface{}{"why": fmt.Sprintf("no progress: the guarded section has not finished after %v (normally far below a second); goroutine dump attached", d), "case": desc, "goroutines": trimDump(string(buf[:n]))}, true)
			c.Finish()
			os.Exit(1)
		}
	}()
	return func() { once.Do(func() { close(done) }) }
}

func trimDump(s string) string {
	if len(s) > 60000 {
		return s[:60000]
	}
	return s
}
