package main

import (
	"io"
	"time"

	tally "github.com/uber-go/tally/v4"
)

// vNewRoot builds a root scope: with shards == 0 through the public
// constructor (which derives the registry shard count from GOMAXPROCS), else
// through the verif shim that fixes the shard count.
func vNewRoot(opts tally.ScopeOptions, interval time.Duration, shards uint) (tally.Scope, io.Closer) {
	if shards == 0 {
		return tally.NewRootScope(opts, interval)
	}
	return tally.VerifNewRootScope(opts, interval, shards)
}

// vNewTest is the same for test scopes.
func vNewTest(prefix string, tags map[string]string, shards uint) tally.TestScope {
	if shards == 0 {
		return tally.NewTestScope(prefix, tags)
	}
	return tally.VerifNewTestScope(prefix, tags, shards)
}
