package main

import (
	"fmt"
	"io"
	"math"
	"sync"
	"sync/atomic"
	"time"

	tally "github.com/uber-go/tally/v4"

	"verifharness/mon"
)

func init() { register("C11", runC11) }

func runC11(c *mon.Ctx) {
	c.Cases(func(i int, r *mon.Rand) {
		c11History(c, r.Fork(1))
		if i%4 == 0 {
			c11Concurrent(c, r.Fork(2))
		}
		if i%8 == 5 {
			c11LongTimer(c, r.Fork(3))
		}
	})
}

type c11Metric struct {
	Kind   string            `json:"kind"`
	Name   string            `json:"name"`
	Tags   map[string]string `json:"tags"`
	Sum    int64             `json:"sum"`
	Bits   uint64            `json:"gauge_bits"`
	Timers []time.Duration   `json:"timers,omitempty"`
	IsDur  bool              `json:"is_duration,omitempty"`
	V      []float64         `json:"spec_values,omitempty"`
	D      []time.Duration   `json:"spec_durations,omitempty"`
	CntV   map[float64]int64 `json:"-"`
	CntD   map[time.Duration]int64
	Made   bool
	NaNs   int64
}

type c11Scope struct {
	id     ident
	sc     tally.Scope
	closed bool
	prog   dprog
	ids    []ident
}

// c11Check compares one snapshot with the reference tally.
func c11Check(c *mon.Ctx, snap tally.Snapshot, ref map[string]*c11Metric, when string, desc interface{}) {
	bad := func(sig, why string) {
		c.Violation(sig, map[string]interface{}{"why": why, "when": when, "case": desc})
	}
	counts := map[string]int{}
	for _, m := range ref {
		counts[m.Kind]++
	}
	if len(snap.Counters()) != counts["counter"] || len(snap.Gauges()) != counts["gauge"] || len(snap.Timers()) != counts["timer"] || len(snap.Histograms()) != counts["histogram"] {
		bad("snapshot-entry-count", fmt.Sprintf("snapshot has %d/%d/%d/%d counters/gauges/timers/histograms, reference %d/%d/%d/%d",
			len(snap.Counters()), len(snap.Gauges()), len(snap.Timers()), len(snap.Histograms()), counts["counter"], counts["gauge"], counts["timer"], counts["histogram"]))
	}
	for key, x := range snap.Counters() {
		c.Event("snapshot-entries-checked", 1)
		m := ref["counter|"+mon.IdentKey(x.Name(), x.Tags())]
		if m == nil {
			bad("snapshot-unknown-entry", fmt.Sprintf("counter %q %v is not a metric of the history", x.Name(), x.Tags()))
			continue
		}
		if key != tally.KeyForPrefixedStringMap(x.Name(), x.Tags()) {
			bad("snapshot-key", fmt.Sprintf("counter entry keyed %q, KeyForPrefixedStringMap gives %q", key, tally.KeyForPrefixedStringMap(x.Name(), x.Tags())))
		}
		if x.Value() != m.Sum {
			bad("snapshot-counter-value", fmt.Sprintf("counter %q %v = %d, sum of increments %d", x.Name(), x.Tags(), x.Value(), m.Sum))
		}
	}
	for key, x := range snap.Gauges() {
		c.Event("snapshot-entries-checked", 1)
		m := ref["gauge|"+mon.IdentKey(x.Name(), x.Tags())]
		if m == nil {
			bad("snapshot-unknown-entry", fmt.Sprintf("gauge %q %v is not a metric of the history", x.Name(), x.Tags()))
			continue
		}
		if key != tally.KeyForPrefixedStringMap(x.Name(), x.Tags()) {
			bad("snapshot-key", fmt.Sprintf("gauge entry keyed %q", key))
		}
		if math.Float64bits(x.Value()) != m.Bits {
			bad("snapshot-gauge-value", fmt.Sprintf("gauge %q %v = %#x, last update %#x", x.Name(), x.Tags(), math.Float64bits(x.Value()), m.Bits))
		}
	}
	for key, x := range snap.Timers() {
		c.Event("snapshot-entries-checked", 1)
		m := ref["timer|"+mon.IdentKey(x.Name(), x.Tags())]
		if m == nil {
			bad("snapshot-unknown-entry", fmt.Sprintf("timer %q %v is not a metric of the history", x.Name(), x.Tags()))
			continue
		}
		if key != tally.KeyForPrefixedStringMap(x.Name(), x.Tags()) {
			bad("snapshot-key", fmt.Sprintf("timer entry keyed %q", key))
		}
		if fmt.Sprint(x.Values()) != fmt.Sprint(m.Timers) && !(len(x.Values()) == 0 && len(m.Timers) == 0) {
			bad("snapshot-timer-values", fmt.Sprintf("timer %q %v = %v, recorded %v", x.Name(), x.Tags(), x.Values(), m.Timers))
		}
	}
	for key, x := range snap.Histograms() {
		c.Event("snapshot-entries-checked", 1)
		m := ref["histogram|"+mon.IdentKey(x.Name(), x.Tags())]
		if m == nil {
			bad("snapshot-unknown-entry", fmt.Sprintf("histogram %q %v is not a metric of the history", x.Name(), x.Tags()))
			continue
		}
		if key != tally.KeyForPrefixedStringMap(x.Name(), x.Tags()) {
			bad("snapshot-key", fmt.Sprintf("histogram entry keyed %q", key))
		}
		if m.IsDur {
			for _, p := range mon.RefPairsD(m.D) {
				got, ok := x.Durations()[p.Hi]
				if !ok {
					bad("snapshot-histogram", fmt.Sprintf("histogram %q: upper bound %d missing", x.Name(), p.Hi))
				} else if got != m.CntD[p.Hi] {
					bad("snapshot-histogram", fmt.Sprintf("histogram %q: bound %d has %d samples, reference %d", x.Name(), p.Hi, got, m.CntD[p.Hi]))
				}
			}
			if len(x.Values()) != 0 {
				bad("snapshot-histogram", "duration histogram has a value map")
			}
		} else {
			var extra int64
			for _, p := range mon.RefPairsV(m.V) {
				got, ok := x.Values()[p.Hi]
				if !ok {
					bad("snapshot-histogram", fmt.Sprintf("histogram %q: upper bound %v missing", x.Name(), p.Hi))
				} else if got < m.CntV[p.Hi] {
					bad("snapshot-histogram", fmt.Sprintf("histogram %q: bound %v has %d samples, reference %d", x.Name(), p.Hi, got, m.CntV[p.Hi]))
				}
			}
			for u, got := range x.Values() {
				extra += got - m.CntV[u]
			}
			if extra < 0 || extra > m.NaNs {
				bad("snapshot-histogram", fmt.Sprintf("histogram %q: %d samples beyond the reference with %d NaNs", x.Name(), extra, m.NaNs))
			}
			if len(x.Durations()) != 0 {
				bad("snapshot-histogram", "value histogram has a duration map")
			}
		}
	}
}

// c11Freeze renders a snapshot into a comparable string (deep copy).
func c11Freeze(s tally.Snapshot) map[string]string {
	out := map[string]string{}
	for k, x := range s.Counters() {
		out["c|"+k] = fmt.Sprintf("%q %v %d", x.Name(), sortedTags(x.Tags()), x.Value())
	}
	for k, x := range s.Gauges() {
		out["g|"+k] = fmt.Sprintf("%q %v %#x", x.Name(), sortedTags(x.Tags()), math.Float64bits(x.Value()))
	}
	for k, x := range s.Timers() {
		out["t|"+k] = fmt.Sprintf("%q %v %v", x.Name(), sortedTags(x.Tags()), x.Values())
	}
	for k, x := range s.Histograms() {
		out["h|"+k] = fmt.Sprintf("%q %v %v %v", x.Name(), sortedTags(x.Tags()), sortedV(x.Values()), sortedD(x.Durations()))
	}
	return out
}

func sortedTags(m map[string]string) string { return mon.IdentKey("", m) }
func sortedV(m map[float64]int64) string {
	ps := mon.RefPairsV(nil)
	_ = ps
	keys := make([]float64, 0, len(m))
	for k := range m {
		keys = append(keys, k)
	}
	for i := 1; i < len(keys); i++ {
		for j := i; j > 0 && keys[j] < keys[j-1]; j-- {
			keys[j], keys[j-1] = keys[j-1], keys[j]
		}
	}
	s := ""
	for _, k := range keys {
		s += fmt.Sprintf("%v:%d ", k, m[k])
	}
	return s
}
func sortedD(m map[time.Duration]int64) string {
	keys := make([]time.Duration, 0, len(m))
	for k := range m {
		keys = append(keys, k)
	}
	for i := 1; i < len(keys); i++ {
		for j := i; j > 0 && keys[j] < keys[j-1]; j-- {
			keys[j], keys[j-1] = keys[j-1], keys[j]
		}
	}
	s := ""
	for _, k := range keys {
		s += fmt.Sprintf("%d:%d ", k, m[k])
	}
	return s
}

func c11Vandalise(r *mon.Rand, s tally.Snapshot) {
	for k, x := range s.Counters() {
		for tk := range x.Tags() {
			x.Tags()[tk] = "VANDAL"
		}
		x.Tags()["vandal"] = "1"
		if r.Bool() {
			delete(s.Counters(), k)
		}
	}
	for k, x := range s.Gauges() {
		x.Tags()["vandal"] = "1"
		if r.Bool() {
			delete(s.Gauges(), k)
		}
	}
	for k, x := range s.Timers() {
		v := x.Values()
		for i := range v {
			v[i] = -12345
		}
		x.Tags()["vandal"] = "1"
		if r.Bool() {
			delete(s.Timers(), k)
		}
	}
	for k, x := range s.Histograms() {
		for u := range x.Values() {
			x.Values()[u] = -777
		}
		for u := range x.Durations() {
			x.Durations()[u] = -777
		}
		x.Tags()["vandal"] = "1"
		if r.Bool() {
			delete(s.Histograms(), k)
		}
	}
}

func c11History(c *mon.Ctx, r *mon.Rand) {
	pool := newStrPool(r, true, true, false) // no delimiter characters: identity merges are C05's known finding
	prefix := ""
	if r.Bool() {
		prefix = pool.names[r.Intn(len(pool.names))]
	}
	rootTags := pool.tagMap(r, 3)
	// every fifth history has a wide root tag set (11-18 more keys) of which the
	// derived scopes override one or two
	wide := r.Chance(1, 5)
	if wide {
		for k := 0; k < r.Range(11, 18); k++ {
			rootTags[fmt.Sprintf("wk%02d", k)] = "parent"
		}
		c.Class("histories-with-more-than-12-tag-keys", 1)
	}
	zeroTwins := r.Fork(909).Chance(1, 4)
	rc := rootCfg{Prefix: prefix, Sep: ".", Tags: rootTags}
	ts := vNewTest(prefix, copyTagMap(rootTags), uint(r.Range(0, 4)))
	nsc := r.Range(1, 4)
	progs := []dprog{{}}
	for i := 1; i < nsc; i++ {
		p := pool.prog(r, 3)
		if wide {
			over := map[string]string{fmt.Sprintf("wk%02d", r.Intn(11)): fmt.Sprintf("child%d", i)}
			if r.Bool() {
				over[fmt.Sprintf("wk%02d", r.Intn(11))] = "child"
			}
			p = append(p, dstep{IsTag: true, Tags: over})
		}
		progs = append(progs, p)
	}
	// half of the histories: the caller owns one map object and refills it for
	// every Tagged call
	var reuseMap map[string]string
	if r.Bool() {
		reuseMap = map[string]string{}
	}
	var scopes []*c11Scope
	for _, p := range progs {
		ids, _ := rc.trace(p)
		var scs []tally.Scope
		if reuseMap != nil {
			scs = p.clone().applyReusing(ts, reuseMap)
		} else {
			scs = p.clone().apply(ts)
		}
		scopes = append(scopes, &c11Scope{id: ids[len(ids)-1], sc: scs[len(scs)-1], prog: p, ids: ids})
	}
	ref := map[string]*c11Metric{}
	var ops []string
	desc := func() interface{} {
		return map[string]interface{}{"prefix": prefix, "root_tags": rootTags, "programs": progs, "ops": ops}
	}
	names := []string{"a", "b", pool.names[0], pool.names[1]}
	// Two different (scope, metric name) pairs can concatenate to the same full
	// name (prefix "p" + "." + "." and prefix "p." + "." + ""): with equal tags
	// the two metrics then have one name+tags identity and no snapshot can hold
	// "one entry per metric". Such histories are outside what C11 can state.
	owners := map[string]string{}
	for _, sc := range scopes {
		for _, n := range names {
			for _, suffix := range []string{"", "h", "z"} {
				k := mon.IdentKey(rc.metricName(sc.id, n+suffix), sc.id.Tags)
				me := sc.id.key() + "|" + n + suffix
				if prev, ok := owners[k]; ok && prev != me {
					c.Class("skipped-two-metrics-with-one-full-name", 1)
					return
				}
				owners[k] = me
			}
		}
	}
	c.Eval(1)
	c.Distinct(mon.Hash64(prefix, fmt.Sprint(rootTags), fmt.Sprint(progs), fmt.Sprint(r.U64())))
	get := func(kind string, s *c11Scope, name string) *c11Metric {
		full := rc.metricName(s.id, name)
		k := kind + "|" + mon.IdentKey(full, s.id.Tags)
		m := ref[k]
		if m == nil {
			m = &c11Metric{Kind: kind, Name: full, Tags: s.id.Tags, CntV: map[float64]int64{}, CntD: map[time.Duration]int64{}}
			ref[k] = m
		}
		return m
	}
	type frozen struct {
		snap tally.Snapshot
		text map[string]string
		when string
	}
	var olds []frozen
	type lateSnap struct {
		snap tally.Snapshot
		ref  map[string]*c11Metric
		when string
	}
	var lates []lateSnap
	nops := r.Range(5, 60)
	panicked := c.Guard("panic", desc, func() {
		for i := 0; i < nops; i++ {
			s := scopes[r.Intn(len(scopes))]
			name := names[r.Intn(len(names))]
			switch op := r.Intn(13); {
			case op == 12:
				// a metric that is obtained and never recorded on is a metric: it has
				// an entry (zero, no values) in every later snapshot
				switch r.Intn(3) {
				case 0:
					get("counter", s, name+"z")
					s.sc.Counter(name + "z")
				case 1:
					get("gauge", s, name+"z")
					s.sc.Gauge(name + "z")
				default:
					get("timer", s, name+"z")
					s.sc.Timer(name + "z")
				}
				ops = append(ops, fmt.Sprintf("%s: obtain %q without recording", s.id.Prefix, name+"z"))
			case op <= 2:
				v := r.AnyInt64()
				if r.Bool() {
					v = int64(r.Range(0, 9))
				}
				get("counter", s, name).Sum += v
				s.sc.Counter(name).Inc(v)
				ops = append(ops, fmt.Sprintf("%s.Counter(%q).Inc(%d)", s.id.Prefix, name, v))
			case op <= 4:
				v := r.AnyFloat()
				get("gauge", s, name).Bits = math.Float64bits(v)
				s.sc.Gauge(name).Update(v)
				ops = append(ops, fmt.Sprintf("%s.Gauge(%q).Update(%v)", s.id.Prefix, name, v))
			case op <= 6:
				d := r.AnyDuration()
				m := get("timer", s, name)
				m.Timers = append(m.Timers, d)
				s.sc.Timer(name).Record(d)
				ops = append(ops, fmt.Sprintf("%s.Timer(%q).Record(%d)", s.id.Prefix, name, d))
			case op <= 8:
				m := get("histogram", s, name+"h")
				if !m.Made {
					m.Made = true
					if r.Bool() {
						m.IsDur = true
						m.D = r.DurationSpec(6)
					} else {
						m.V = r.ValueSpec(6)
					}
					if zeroTwins {
						// this history's histograms all have the bounds {0} or {-2,2},
						// as values or as durations: specifications of the two kinds
						// whose identities and converted bounds coincide
						if r.Bool() {
							m.V, m.D = []float64{0}, []time.Duration{0}
						} else {
							m.V, m.D = []float64{-2, 2}, []time.Duration{-2 * time.Second, 2 * time.Second}
						}
						if m.IsDur {
							m.V = nil
						} else {
							m.D = nil
						}
						c.Class("histograms-of-cross-kind-twin-specifications", 1)
					} else if r.Chance(1, 8) {
						// a specification without bounds (empty, not nil): one bucket
						// of the requested kind that covers everything
						m.V, m.D = m.V[:0], m.D[:0]
						if m.IsDur {
							m.D = []time.Duration{}
						} else {
							m.V = []float64{}
						}
						c.Class("histograms-with-an-empty-specification", 1)
					}
				}
				if m.IsDur {
					h := s.sc.Histogram(name+"h", tally.DurationBuckets(append([]time.Duration(nil), m.D...)))
					xs := r.SamplesForDurations(m.D, 1)
					x := xs[r.Intn(len(xs))]
					m.CntD[mon.RefUpperD(m.D, x)]++
					h.RecordDuration(x)
					ops = append(ops, fmt.Sprintf("%s.Histogram(%q,%v).RecordDuration(%d)", s.id.Prefix, name+"h", m.D, x))
				} else {
					h := s.sc.Histogram(name+"h", tally.ValueBuckets(append([]float64(nil), m.V...)))
					xs := r.SamplesForValues(m.V, 1)
					x := xs[r.Intn(len(xs))]
					if hi, ok := mon.RefUpperV(m.V, x); ok {
						m.CntV[hi]++
					} else {
						m.NaNs++
					}
					h.RecordValue(x)
					ops = append(ops, fmt.Sprintf("%s.Histogram(%q,%v).RecordValue(%v)", s.id.Prefix, name+"h", m.V, x))
				}
			case op == 9:
				var snap tally.Snapshot
				if via, ok := s.sc.(tally.TestScope); ok && r.Bool() {
					snap = via.Snapshot() // through a derived handle: same content
					c.Event("snapshots-via-derived-handle", 1)
				} else {
					snap = ts.Snapshot()
				}
				when := fmt.Sprintf("snapshot after op %d", i)
				if r.Chance(1, 3) {
					// not looked at until the history is over: it must then still show
					// the state at the time it was taken
					lates = append(lates, lateSnap{snap, c11CloneRef(ref), when + " (first read at the end of the history)"})
					ops = append(ops, "Snapshot() kept unread")
					c.Event("snapshots-first-read-later", 1)
					break
				}
				c11Check(c, snap, ref, when, desc())
				olds = append(olds, frozen{snap, c11Freeze(snap), when})
				ops = append(ops, "Snapshot()")
				c.Event("snapshots-taken", 1)
			case op == 10:
				if len(olds) > 0 {
					o := olds[r.Intn(len(olds))]
					now := c11Freeze(o.snap)
					if fmt.Sprint(now) != fmt.Sprint(o.text) {
						c.Violation("old-snapshot-changed", map[string]interface{}{"why": "a snapshot re-read after more recording differs from what it showed when taken", "when": o.when, "then": o.text, "now": now, "case": desc()})
					}
					c.Event("old-snapshots-reread", 1)
					// vandalise it; later snapshots must be unaffected
					c11Vandalise(r, o.snap)
					for j := range olds {
						if olds[j].snap == o.snap {
							olds[j].text = c11Freeze(o.snap)
						}
					}
					ops = append(ops, "vandalise old snapshot")
					c.Event("snapshots-vandalised", 1)
				}
			default:
				// close a subscope (not the root): its metrics stay visible
				if s.sc != tally.Scope(ts) && !s.closed && s.id.key() != scopes[0].id.key() {
					if cl, ok := s.sc.(io.Closer); ok {
						cl.Close()
						s.closed = true
						ops = append(ops, fmt.Sprintf("close subscope %q %v", s.id.Prefix, s.id.Tags))
						c.Event("subscopes-closed", 1)
						// half of the time the same prefix and tags are derived again from the
						// test scope (unless the way there leads through a closed scope, whose
						// children are inert): a test scope hands the closed scope out again, with
						// everything recorded before the Close still in later snapshots
						closedKeys := map[string]bool{}
						for _, x := range scopes {
							if x.closed {
								closedKeys[x.id.key()] = true
							}
						}
						through := false
						for _, id := range s.ids[:len(s.ids)-1] {
							if closedKeys[id.key()] {
								through = true
							}
						}
						if !through && r.Bool() {
							scs := s.prog.clone().apply(ts)
							s.sc = scs[len(scs)-1]
							ops = append(ops, "derive it again")
							c.Event("closed-subscopes-derived-again", 1)
						}
					}
				}
			}
		}
		snap := ts.Snapshot()
		c11Check(c, snap, ref, "final snapshot", desc())
		c.Event("snapshots-taken", 1)
		for _, l := range lates {
			c11Check(c, l.snap, l.ref, l.when, desc())
		}
	})
	_ = panicked
	if c.WantSample() {
		c.Sample(desc())
	}
}

// c11Concurrent: snapshots taken while single recorders run.
func c11Concurrent(c *mon.Ctx, r *mon.Rand) {
	ts := vNewTest("p", map[string]string{"k": "v"}, uint(r.Range(0, 3)))
	const W = 3
	type wstate struct {
		started, done int64 // counter increments (each +1)
		gauge         int64 // last started gauge update index
		timers        int64 // completed timer records
	}
	st := make([]wstate, W)
	var stop int32
	var wg sync.WaitGroup
	c.Eval(1)
	for w := 0; w < W; w++ {
		wg.Add(1)
		go func(w int) {
			defer wg.Done()
			sc := ts.SubScope(fmt.Sprintf("w%d", w))
			cn, g, tm := sc.Counter("c"), sc.Gauge("g"), sc.Timer("t")
			for i := int64(1); atomic.LoadInt32(&stop) == 0 && i < 3000; i++ {
				atomic.StoreInt64(&st[w].started, i)
				cn.Inc(1)
				atomic.StoreInt64(&st[w].done, i)
				atomic.StoreInt64(&st[w].gauge, i)
				g.Update(float64(i))
				tm.Record(time.Duration(i))
				atomic.StoreInt64(&st[w].timers, i)
			}
		}(w)
	}
	nsnap := 0
	for k := 0; k < 30; k++ {
		var before [W]wstate
		for w := 0; w < W; w++ {
			before[w].done = atomic.LoadInt64(&st[w].done)
			before[w].timers = atomic.LoadInt64(&st[w].timers)
		}
		snap := ts.Snapshot()
		nsnap++
		for w := 0; w < W; w++ {
			startedAfter := atomic.LoadInt64(&st[w].started)
			gaugeAfter := atomic.LoadInt64(&st[w].gauge)
			for _, x := range snap.Counters() {
				if x.Name() == fmt.Sprintf("p.w%d.c", w) {
					if x.Value() < before[w].done || x.Value() > startedAfter {
						c.Violation("concurrent-snapshot-counter", fmt.Sprintf("counter %s = %d, but %d increments had completed before the snapshot began and only %d had started when it ended", x.Name(), x.Value(), before[w].done, startedAfter))
					}
				}
			}
			for _, x := range snap.Gauges() {
				if x.Name() == fmt.Sprintf("p.w%d.g", w) {
					v := x.Value()
					if v != math.Trunc(v) || v < 0 || int64(v) > gaugeAfter {
						c.Violation("concurrent-snapshot-gauge", fmt.Sprintf("gauge %s = %v is not a value that had been passed to Update (max %d)", x.Name(), v, gaugeAfter))
					}
				}
			}
			for _, x := range snap.Timers() {
				if x.Name() == fmt.Sprintf("p.w%d.t", w) {
					vals := x.Values()
					if int64(len(vals)) < before[w].timers {
						c.Violation("concurrent-snapshot-timer", fmt.Sprintf("timer %s has %d values, %d records had completed before the snapshot", x.Name(), len(vals), before[w].timers))
					}
					for i, v := range vals {
						if v != time.Duration(i+1) {
							c.Violation("concurrent-snapshot-timer", fmt.Sprintf("timer %s values are not a prefix of the recorded sequence at %d: %d", x.Name(), i, v))
							break
						}
					}
				}
			}
		}
	}
	atomic.StoreInt32(&stop, 1)
	wg.Wait()
	c.Event("concurrent-snapshots", int64(nsnap))
	c11FirstUse(c, r.Fork(7))
	c11ConcurrentDerive(c, r.Fork(8))
}

// c11ConcurrentDerive: several goroutines derive the same few test subscopes,
// record on them, and close them now and then, all at the same time. A test
// scope never drops anything: whatever was derived, closed and derived again
// in between, every increment is in the final snapshot.
func c11ConcurrentDerive(c *mon.Ctx, r *mon.Rand) {
	ts := vNewTest("", nil, uint(r.Range(0, 3)))
	G := r.Range(2, 6)
	per := r.Range(50, 400)
	nIdent := r.Range(1, 3)
	desc := map[string]interface{}{"scenario": "concurrent derive/record/close on a test scope", "goroutines": G, "operations": per, "identities": nIdent}
	var sums [3]int64
	var wg sync.WaitGroup
	start := make(chan struct{})
	stop := c.Watchdog(120*time.Second, "no-progress", desc)
	defer stop()
	for g := 0; g < G; g++ {
		wg.Add(1)
		gr := r.Fork(uint64(g + 1))
		go func() {
			defer wg.Done()
			<-start
			c.Guard("panic-testscope-derive", func() interface{} { return desc }, func() {
				for i := 0; i < per; i++ {
					k := gr.Intn(nIdent)
					var sc tally.Scope
					if k%2 == 0 {
						sc = ts.SubScope(fmt.Sprintf("d%d", k))
					} else {
						sc = ts.Tagged(map[string]string{"d": fmt.Sprint(k)})
					}
					sc.Counter("n").Inc(1)
					atomic.AddInt64(&sums[k], 1)
					if gr.Chance(1, 4) {
						sc.(io.Closer).Close()
					}
				}
			})
		}()
	}
	close(start)
	wg.Wait()
	got := map[string]int64{}
	for _, cs := range ts.Snapshot().Counters() {
		got[cs.Name()+fmt.Sprint(cs.Tags())] += cs.Value()
	}
	for k := 0; k < nIdent; k++ {
		key := fmt.Sprintf("d%d.n%v", k, map[string]string{})
		if k%2 == 1 {
			key = "n" + fmt.Sprint(map[string]string{"d": fmt.Sprint(k)})
		}
		if got[key] != atomic.LoadInt64(&sums[k]) {
			c.Violation("snapshot-counter-value", map[string]interface{}{"why": fmt.Sprintf("test subscope %d was derived, recorded on and closed concurrently by %d goroutines: the final snapshot shows %d under %s, %d increments were made (all entries: %v)", k, G, got[key], key, atomic.LoadInt64(&sums[k]), got), "case": desc})
		}
	}
	c.Event("concurrent-derive-runs", 1)
}

// c11FirstUse: several goroutines make the first use of the same metrics of
// one scope of a test scope at the same moment (delay at the probe/insert
// window); a snapshot taken after they have joined must show everything.
func c11FirstUse(c *mon.Ctx, r *mon.Rand) {
	prof := mon.RandomProfile(r, []int{tally.VerifMetricProbeMissed, tally.VerifSubscopeUpgrade}, r.Intn(3))
	prof.Prob[tally.VerifMetricProbeMissed] = r.Range(300, 900)
	inj := mon.NewDelayInjector(r.U64(), prof, false)
	inj.Install()
	defer inj.Uninstall()
	ts := vNewTest("p", map[string]string{"k": "v"}, uint(r.Range(0, 3)))
	G := r.Range(2, 8)
	rounds := r.Range(1, 4)
	desc := map[string]interface{}{"goroutines": G, "rounds": rounds}
	vb := tally.ValueBuckets{1, 2, 3}
	for round := 0; round < rounds; round++ {
		var wg, start sync.WaitGroup
		start.Add(1)
		gh := make([]tally.Gauge, G)
		for g := 0; g < G; g++ {
			wg.Add(1)
			go func(g int) {
				defer wg.Done()
				start.Wait()
				sc := ts.SubScope(fmt.Sprintf("r%d", round))
				sc.Counter("c").Inc(int64(g + 1))
				sc.Timer("t").Record(time.Duration(g + 1))
				sc.Histogram("h", vb).RecordValue(2)
				gh[g] = sc.Gauge("g")
				gh[g].Update(float64(g + 1))
				gh[g] = sc.Gauge("g2")
			}(g)
		}
		start.Done()
		wg.Wait()
		// every goroutine's handle of g2 is the one gauge: updated one after the
		// other through each of them, the last update is what the snapshot shows
		for g := 0; g < G; g++ {
			gh[g].Update(float64(100 + g))
		}
	}
	snap := ts.Snapshot()
	sum := int64(G * (G + 1) / 2)
	for round := 0; round < rounds; round++ {
		pre := fmt.Sprintf("p.r%d.", round)
		found := map[string]int{}
		for _, x := range snap.Counters() {
			if x.Name() == pre+"c" {
				found["c"]++
				if x.Value() != sum {
					c.Violation("snapshot-counter-first-use", map[string]interface{}{"why": fmt.Sprintf("%s = %d after %d goroutines made its first use together and added %d in total", x.Name(), x.Value(), G, sum), "case": desc})
				}
			}
		}
		for _, x := range snap.Timers() {
			if x.Name() == pre+"t" {
				found["t"]++
				if len(x.Values()) != G {
					c.Violation("snapshot-timer-first-use", map[string]interface{}{"why": fmt.Sprintf("%s holds %d values after %d goroutines made its first use together and recorded one each", x.Name(), len(x.Values()), G), "case": desc})
				}
			}
		}
		for _, x := range snap.Histograms() {
			if x.Name() == pre+"h" {
				found["h"]++
				if x.Values()[2] != int64(G) {
					c.Violation("snapshot-histogram-first-use", map[string]interface{}{"why": fmt.Sprintf("%s bucket 2 holds %d samples, %d recorded", x.Name(), x.Values()[2], G), "case": desc})
				}
			}
		}
		for _, x := range snap.Gauges() {
			if x.Name() == pre+"g" {
				found["g"]++
				if v := x.Value(); v != math.Trunc(v) || v < 1 || v > float64(G) {
					c.Violation("snapshot-gauge-first-use", map[string]interface{}{"why": fmt.Sprintf("%s = %v is not one of the values set", x.Name(), v), "case": desc})
				}
			}
		}
		for _, x := range snap.Gauges() {
			if x.Name() == pre+"g2" && x.Value() != float64(100+G-1) {
				c.Violation("snapshot-gauge-first-use", map[string]interface{}{"why": fmt.Sprintf("%s = %v; %d goroutines obtained it together, then each handle was updated in turn, the last one to %d", x.Name(), x.Value(), G, 100+G-1), "case": desc})
			}
		}
		for _, k := range []string{"c", "t", "h", "g"} {
			if found[k] != 1 {
				c.Violation("snapshot-entry-count", map[string]interface{}{"why": fmt.Sprintf("%d snapshot entries for %s%s after concurrent first use", found[k], pre, k), "case": desc})
			}
		}
	}
	c.Event("concurrent-first-use-rounds", int64(rounds))
}

// c11CloneRef copies the reference tally (the state a snapshot taken now must
// keep showing).
func c11CloneRef(ref map[string]*c11Metric) map[string]*c11Metric {
	out := make(map[string]*c11Metric, len(ref))
	for k, m := range ref {
		n := *m
		n.Timers = append([]time.Duration(nil), m.Timers...)
		n.CntV = make(map[float64]int64, len(m.CntV))
		for a, b := range m.CntV {
			n.CntV[a] = b
		}
		n.CntD = make(map[time.Duration]int64, len(m.CntD))
		for a, b := range m.CntD {
			n.CntD[a] = b
		}
		out[k] = &n
	}
	return out
}

// c11LongTimer: one timer of a test scope records 65,537-70,000 durations
// (passes in between); the snapshot shows every one of them, in order.
func c11LongTimer(c *mon.Ctx, r *mon.Rand) {
	ts := vNewTest("", nil, uint(r.Range(0, 2)))
	sc := tally.Scope(ts)
	if r.Bool() {
		sc = ts.SubScope("long")
	}
	tm := sc.Timer("t")
	n := r.Range(65537, 70000)
	for k := 0; k < n; k++ {
		tm.Record(time.Duration(k))
		if k%20000 == 19999 {
			tally.VerifReportPass(ts)
		}
	}
	checked := false
	for _, t := range ts.Snapshot().Timers() {
		vals := t.Values()
		checked = true
		bad := len(vals) != n
		for k := 0; !bad && k < n; k++ {
			bad = vals[k] != time.Duration(k)
		}
		if bad {
			first := time.Duration(-1)
			if len(vals) > 0 {
				first = vals[0]
			}
			c.Violation("snapshot-timer-values", map[string]interface{}{"why": fmt.Sprintf("a timer recorded %d durations 0ns, 1ns, 2ns, ...; the snapshot holds %d values starting with %v", n, len(vals), first)})
		}
	}
	if !checked {
		c.Violation("snapshot-entry-count", map[string]interface{}{"why": "the snapshot has no timer entry for a timer with tens of thousands of recordings"})
	}
	c.Event("long-timer-recordings", int64(n))
}
