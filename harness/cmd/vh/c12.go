package main

import (
	"bytes"
	"fmt"
	"math"
	"net"
	"strconv"
	"strings"
	"sync"
	"time"

	tally "github.com/uber-go/tally/v4"
	"github.com/uber-go/tally/v4/m3"
	m3thrift "github.com/uber-go/tally/v4/m3/thrift/v2"

	"verifharness/mon"
)

func init() { register("C12", runC12) }

func runC12(c *mon.Ctx) {
	c.Cases(func(i int, r *mon.Rand) {
		c12Life(c, r, "")
		if i%10 == 0 {
			c12Revive(c, r.Fork(12))
		}
	})
}

// c12Revive: the collector is down when the reporter starts (its sends are
// refused) and comes back on the same port later. Whatever happened to the
// batches that could not be delivered, every datagram that arrives afterwards
// is at most MaxPacketSizeBytes long.
func c12Revive(c *mon.Ctx, r *mon.Rand) {
	proto := m3.Compact
	if r.Bool() {
		proto = m3.Binary
	}
	addr := mon.DeadPort()
	maxPacket := int32(r.Range(1440, 4000))
	opts := m3.Options{Service: "s", Env: "e", Protocol: proto, HostPorts: []string{addr}, MaxQueueSize: 4096, MaxPacketSizeBytes: maxPacket}
	env, err := newM3Env(0, opts, nil)
	if err != nil {
		c.Inconclusive("NewReporter: " + err.Error())
		return
	}
	defer tally.VerifSetHook(nil)
	c.Eval(1)
	desc := map[string]interface{}{"scenario": "collector down, then back on the same port", "protocol": protoName(proto), "max_packet": maxPacket}
	c.LogCase(fmt.Sprint(desc))
	stop := c.Watchdog(120*time.Second, "m3-call-or-close-does-not-return", desc)
	defer stop()
	var handles []tally.CachedCount
	for k := 0; k < 12; k++ {
		handles = append(handles, env.Rep.AllocateCounter(fmt.Sprintf("counter-with-a-name-of-some-length-%02d-%s", k, r.Ident(40)), map[string]string{"k": r.Ident(20)}))
	}
	burst := func(n int) {
		for i := 0; i < n; i++ {
			handles[r.Intn(len(handles))].ReportCount(int64(i + 1))
		}
		env.Rep.Flush()
	}
	for i := 0; i < r.Range(2, 5); i++ {
		burst(r.Range(5, 60))
		time.Sleep(500 * time.Microsecond) // let the refusal come back
	}
	udpAddr, _ := net.ResolveUDPAddr("udp4", addr)
	conn, err := net.ListenUDP("udp4", udpAddr)
	if err != nil {
		c.Inconclusive("port taken: " + err.Error())
		env.Rep.Close()
		return
	}
	defer conn.Close()
	for i := 0; i < r.Range(2, 6); i++ {
		burst(r.Range(5, 60))
		time.Sleep(300 * time.Microsecond)
	}
	env.Rep.Close()
	conn.SetReadDeadline(time.Now().Add(300 * time.Millisecond))
	buf := make([]byte, 70000)
	n := 0
	for {
		sz, _, err := conn.ReadFromUDP(buf)
		if err != nil {
			break
		}
		n++
		if sz > int(maxPacket) {
			c.Violation("datagram-exceeds-max-packet-size", map[string]interface{}{"why": fmt.Sprintf("a datagram of %d bytes arrived after the collector came back, MaxPacketSizeBytes is %d", sz, maxPacket), "case": desc})
			break
		}
		conn.SetReadDeadline(time.Now().Add(100 * time.Millisecond))
	}
	c.Event("datagrams-after-the-collector-came-back", int64(n))
	c.Distinct(mon.Hash64("revive", fmt.Sprint(desc), fmt.Sprint(r.U64())))
}

type c12Batch struct {
	N          int
	SumEnc     int
	SumCharged int64
	Free       int32
	Overhead   int32
}

// c12Life runs one reporter lifetime. force == "reporter-size" (used by C16)
// restricts it to the part decided by the batch observer alone: a dead-port
// destination and identities that share name and tags across kinds.
func c12Life(c *mon.Ctx, r *mon.Rand, force string) {
	proto := m3.Compact
	if r.Bool() {
		proto = m3.Binary
	}
	opts := m3.Options{Service: "s", Env: "e", Protocol: proto, MaxQueueSize: []int{1, 2, 64, 4096}[r.Intn(4)]}
	common := map[string]string{}
	nCommon := r.Intn(5)
	if r.Chance(1, 5) {
		nCommon = r.Range(10, 16)
	}
	for i := 0; i < nCommon; i++ {
		common["c"+strconv.Itoa(i)] = genBytes(r, 24)
	}
	opts.CommonTags = common
	switch r.Intn(5) {
	case 0:
		opts.MaxPacketSizeBytes = int32(r.Range(300, 1200))
	case 1:
		opts.MaxPacketSizeBytes = 1440
	case 2:
		opts.MaxPacketSizeBytes = int32(r.Range(1200, 9000))
	case 3:
		opts.MaxPacketSizeBytes = int32(r.Range(60000, 65000))
	default:
		opts.MaxPacketSizeBytes = 0 // default 32768
	}
	if r.Chance(1, 3) {
		opts.HistogramBucketIDName, opts.HistogramBucketName = "B"+genBytes(r, 12)+"i", "B"+genBytes(r, 30)+"b"
	}
	if r.Chance(1, 3) {
		opts.HistogramBucketTagPrecision = uint(r.Range(1, 12))
	}
	if r.Chance(1, 3) {
		opts.IncludeHost = true // one more common tag, resolved by the reporter itself
	}
	if r.Chance(1, 4) {
		opts.InternalTags = map[string]string{"it" + genBytes(r, 8): genBytes(r, 40)}
	}
	traffic := []string{"mixed", "histogram-only", "counters", "long-names", "many-tags", "shared-identities"}[r.Intn(6)]
	if force == "reporter-size" && r.Bool() {
		traffic = "shared-identities"
	}
	nIdents := r.Range(1, 40)
	if force == "reporter-size" && r.Bool() {
		nIdents = r.Range(100, 250) // many size measurements, made by eight goroutines at once when allocation is concurrent
	}
	idents := make([]m3Ident, nIdents)
	for i := range idents {
		id := m3Ident{Name: "m" + strconv.Itoa(i)}
		nameLen := r.Range(1, 60)
		if traffic == "long-names" || r.Chance(1, 8) {
			nameLen = r.Range(100, 600)
		}
		id.Name += genBytes(r, nameLen)
		if r.Chance(1, 40) {
			id.Name = ""
		}
		nt := r.Intn(5)
		if traffic == "many-tags" {
			nt = r.Range(6, 8)
		}
		if r.Chance(1, 10) {
			nt = r.Range(12, 14) // the bucket tags push the list past the compact short form
		}
		if nt > 0 {
			id.Tags = map[string]string{}
			for k := 0; k < nt; k++ {
				id.Tags["t"+strconv.Itoa(k)+genBytes(r, 6)] = genBytes(r, 30)
			}
		}
		kinds := []string{"counter", "gauge", "timer", "hist"}
		id.Kind = kinds[r.Intn(4)]
		if traffic == "histogram-only" {
			id.Kind = "hist"
		} else if traffic == "counters" {
			id.Kind = "counter"
		}
		if id.Kind == "hist" {
			if r.Bool() {
				id.IsDur = true
				id.D = r.DurationSpec(20)
			} else {
				id.V = r.ValueSpec(20)
			}
		}
		if i > 0 && (traffic == "shared-identities" && r.Bool() || r.Chance(1, 12)) {
			// the same name and tags as an earlier metric, any kind (often another one)
			prev := idents[r.Intn(i)]
			id.Name, id.Tags = prev.Name, prev.Tags
		}
		idents[i] = id
	}
	nCalls := r.Range(50, 3000)
	if opts.MaxPacketSizeBytes >= 60000 && force == "" && r.Bool() {
		// under the largest packet limits: two or three metrics of 33-40 KB each
		// (beyond what 15 bits count), reported often - no two of them fit together
		for k, n := 0, r.Range(2, 3); k < n; k++ {
			idents = append(idents, m3Ident{Kind: []string{"counter", "gauge", "timer"}[k], Name: strings.Repeat("H", r.Range(33000, 40000)), Tags: map[string]string{"huge": strconv.Itoa(k)}})
		}
		nIdents = len(idents)
	}
	concAlloc := r.Bool()
	// every tenth lifetime allocates more distinct tag sets than the reporter's
	// pools hold (4096 pooled tag slices) and reports each of them once more at
	// the end, the earliest ones included
	manyTagSets := r.Chance(1, 10) && force == ""
	if manyTagSets {
		n := r.Range(4200, 5000)
		idents = idents[:0]
		for i := 0; i < n; i++ {
			idents = append(idents, m3Ident{Kind: "counter", Name: "w", Tags: map[string]string{"shard": "s" + strconv.Itoa(i), "k": genBytes(r, 20)}})
		}
		nIdents = n
		concAlloc = false
		c.Class("lifetimes-with-more-than-4096-distinct-tag-sets", 1)
	}
	desc := map[string]interface{}{"protocol": protoName(proto), "queue": opts.MaxQueueSize, "max_packet": opts.MaxPacketSizeBytes, "common_tags": nCommon, "include_host": opts.IncludeHost, "internal_tags": len(opts.InternalTags),
		"traffic": traffic, "more_than_4096_tag_sets": manyTagSets, "concurrent_allocation": concAlloc, "identities": nIdents, "calls": nCalls, "bucket_tag_names": fmt.Sprintf("%q/%q", opts.HistogramBucketIDName, opts.HistogramBucketName)}
	c.LogCase(fmt.Sprint(desc))
	stopWatch := c.Watchdog(300*time.Second, "m3-call-or-close-does-not-return", desc)
	defer stopWatch()
	maxPacket := int(opts.MaxPacketSizeBytes)
	if maxPacket == 0 {
		maxPacket = int(m3.DefaultMaxPacketSize)
	}
	bad := func(sig, why string) { c.Violation(sig, map[string]interface{}{"why": why, "case": desc}) }

	// batch observer: runs on the reporter's single batching goroutine
	enc := newEncoder(proto)
	var bmu sync.Mutex
	var batches []c12Batch
	nUnder := 0
	m3.VerifSetBatchHook(func(b m3.VerifBatch) {
		cb := c12Batch{N: len(b.Metrics), Free: b.FreeBytes, Overhead: b.OverheadBytes}
		for i, m := range b.Metrics {
			data, _ := enc.metric(m)
			cb.SumEnc += len(data)
			var charged int32 = -1
			if i < len(b.Charged) {
				charged = b.Charged[i]
			}
			cb.SumCharged += int64(charged)
			// the charge is the size measured with maximal field values: it must also
			// bound the metric as emitted with its value and timestamp at their maxima
			// (the real clock keeps today's timestamps one varint byte below that)
			mx := m
			mx.Timestamp = math.MaxInt64
			switch {
			case mx.Value.MetricType == m3thrift.MetricType_COUNTER:
				mx.Value.Count = math.MaxInt64
			case mx.Value.MetricType == m3thrift.MetricType_TIMER:
				mx.Value.Timer = math.MaxInt64
			case mx.Value.MetricType == m3thrift.MetricType_GAUGE:
				mx.Value.Gauge = math.MaxFloat64
			}
			if dmax, _ := enc.metric(mx); int32(len(dmax)) > charged {
				nUnder++
				if nUnder <= 3 {
					bad("metric-undercharged", fmt.Sprintf("metric %q (%d tags, type %v) would occupy %d bytes with maximal value and timestamp but was charged %d", m.Name, len(m.Tags), m.Value.MetricType, len(dmax), charged))
				}
			} else if int32(len(data)) > charged {
				nUnder++
				if nUnder <= 3 {
					bad("metric-undercharged", fmt.Sprintf("metric %q (%d tags, type %v) occupies %d bytes in the batch but was charged %d", m.Name, len(m.Tags), m.Value.MetricType, len(data), charged))
				}
			}
		}
		if cb.N >= 2 && cb.SumCharged > int64(b.FreeBytes) {
			bad("batch-overfilled", fmt.Sprintf("batch of %d metrics charged %d bytes, free bytes %d", cb.N, cb.SumCharged, b.FreeBytes))
		}
		bmu.Lock()
		batches = append(batches, cb)
		bmu.Unlock()
	})
	defer m3.VerifSetBatchHook(nil)

	// every sixth lifetime sends to a dead port: write errors must not disturb
	// the accounting (checked through the batch observer alone)
	deadPort := r.Chance(1, 6) || force == "reporter-size"
	nSinks := 1
	if deadPort {
		nSinks = 0
		opts.HostPorts = []string{mon.DeadPort()}
		desc["destination"] = "dead-port"
		c.Class("lifetimes-with-write-errors(dead port)", 1)
	}
	// every seventh lifetime with a live destination has a second one that
	// refuses every datagram: what the live one receives is the same (a write
	// error for one destination neither drops nor repeats a batch for the other)
	if !deadPort && r.Chance(1, 7) {
		opts.HostPorts = []string{mon.DeadPort()}
		desc["second_destination"] = "dead-port"
		c.Class("lifetimes-with-one-live-and-one-refusing-destination", 1)
	}
	// every eighth lifetime with a live destination lists it twice (a hostPort
	// merged into hostPorts): it then receives every datagram twice, each within
	// the limit
	listedTwice := !deadPort && r.Chance(1, 8)
	if listedTwice {
		desc["destination_listed_twice"] = true
		c.Class("lifetimes-with-the-destination-listed-twice", 1)
	}
	m3ListTwice = listedTwice
	defer func() { m3ListTwice = false }()
	m3ViaConfiguration = r.Chance(1, 6) // build the reporter through m3.Configuration where the options allow it
	defer func() { m3ViaConfiguration = false }()
	env, err := newM3Env(nSinks, opts, nil)
	if err != nil {
		c.Class("reporter-construction-refused(common tags exceed packet size)", 1)
		return
	}
	c.Eval(1)
	var calls []m3Call
	c.Guard("panic-m3", func() interface{} { return desc }, func() {
		hs := make([]*m3Handle, len(idents))
		if concAlloc {
			// allocation (and with it the size measurement) from several goroutines
			var wg sync.WaitGroup
			G := 4
			if force == "reporter-size" {
				G = 8
			}
			startAlloc := make(chan struct{})
			for g := 0; g < G; g++ {
				wg.Add(1)
				go func(g int) {
					defer wg.Done()
					<-startAlloc
					for i := g; i < len(idents); i += G {
						hs[i] = allocM3(env.Rep, &idents[i])
					}
				}(g)
			}
			close(startAlloc)
			wg.Wait()
		} else {
			for i := range idents {
				hs[i] = allocM3(env.Rep, &idents[i])
			}
		}
		for i := 0; i < nCalls; i++ {
			if r.Chance(1, 60) {
				env.Rep.Flush()
				continue
			}
			calls = append(calls, hs[r.Intn(len(hs))].report(r, 0, i))
		}
		if manyTagSets || (force == "reporter-size" && concAlloc) {
			// every handle at least once: the size each one was charged at
			// allocation is compared with what it occupies
			for k := range hs {
				calls = append(calls, hs[k].report(r, 0, nCalls+k))
			}
		}
	})
	env.Rep.Close()
	complete, why := env.finish()
	if !complete {
		c.Inconclusive(why)
		return
	}
	if deadPort {
		bmu.Lock()
		nb := len(batches)
		for i, b := range batches {
			if b.N >= 1 && int(b.Overhead)+b.SumEnc > maxPacket && b.N > 1 {
				bad("datagram-exceeds-max-packet-size", fmt.Sprintf("batch %d (dead port): %d metrics occupying %d bytes + overhead %d exceed MaxPacketSizeBytes %d", i, b.N, b.SumEnc, b.Overhead, maxPacket))
			}
		}
		bmu.Unlock()
		c.Event("batches-observed-with-write-errors", int64(nb))
		c.Distinct(mon.Hash64(fmt.Sprint(desc), fmt.Sprint(r.U64())))
		return
	}
	dgrams := env.Sinks[0].Datagrams()
	if listedTwice {
		// one copy per listing, sent one after the other
		var uniq [][]byte
		for i := 0; i+1 < len(dgrams); i += 2 {
			if !bytes.Equal(dgrams[i], dgrams[i+1]) {
				bad("batches-vs-datagrams", fmt.Sprintf("destination listed twice: datagrams %d and %d (%d and %d bytes) are not two copies of one batch", i, i+1, len(dgrams[i]), len(dgrams[i+1])))
				return
			}
			uniq = append(uniq, dgrams[i])
		}
		if len(dgrams)%2 != 0 {
			bad("batches-vs-datagrams", fmt.Sprintf("destination listed twice received an odd number of datagrams (%d)", len(dgrams)))
			return
		}
		dgrams = uniq
	}
	msgs, problems := decodeAll(proto, dgrams)
	for _, p := range problems {
		bad("malformed-datagram", p)
	}
	if len(problems) > 0 {
		return
	}
	c.Event("datagrams", int64(len(dgrams)))
	c.Event("report-calls", int64(len(calls)))
	bmu.Lock()
	bs := append([]c12Batch(nil), batches...)
	bmu.Unlock()
	if len(bs) != len(dgrams) {
		bad("batches-vs-datagrams", fmt.Sprintf("%d batches emitted, %d datagrams received", len(bs), len(dgrams)))
	}
	maxSeen := 0
	for i, d := range dgrams {
		if len(d) > maxSeen {
			maxSeen = len(d)
		}
		n := len(msgs[i].Batch.Metrics)
		if len(d) > maxPacket {
			if n <= 1 {
				c.Class("datagrams-with-a-single-metric-that-does-not-fit-alone(outside the claim)", 1)
			} else {
				bad("datagram-exceeds-max-packet-size", fmt.Sprintf("datagram %d is %d bytes with %d metrics, MaxPacketSizeBytes %d", i, len(d), n, maxPacket))
			}
		}
		if i < len(bs) {
			if bs[i].N != n {
				bad("batches-vs-datagrams", fmt.Sprintf("batch %d had %d metrics, datagram has %d", i, bs[i].N, n))
			} else if envl := len(d) - bs[i].SumEnc; envl > int(bs[i].Overhead) {
				bad("envelope-exceeds-overhead-allowance", fmt.Sprintf("datagram %d: %d bytes beyond its %d metrics, overhead allowance %d", i, envl, n, bs[i].Overhead))
			}
		}
	}
	c.Class(fmt.Sprintf("max-datagram-percent-of-limit-%d0", minInt(10, maxSeen*10/maxPacket)), 1)
	// nothing dropped, duplicated or reordered
	k := 0
	okOrder := true
	for _, m := range msgs {
		for _, met := range m.Batch.Metrics {
			key, _, _, _, internal := decodedKey(met, bucketIDName(opts), bucketName(opts))
			if internal {
				continue
			}
			if k >= len(calls) || calls[k].key() != key {
				if okOrder {
					var want string
					if k < len(calls) {
						want = calls[k].key()
					}
					bad("sequence-differs", fmt.Sprintf("emitted metric #%d is %.200s, call #%d was %.200s", k, key, k, want))
				}
				okOrder = false
			}
			k++
		}
	}
	if k != len(calls) {
		bad("sequence-differs", fmt.Sprintf("%d metrics emitted, %d reported", k, len(calls)))
	}
	c.Event("metrics-emitted", int64(k))
	c.Distinct(mon.Hash64(fmt.Sprint(desc), fmt.Sprint(r.U64())))
	if c.WantSample() {
		c.Sample(map[string]interface{}{"config": desc, "datagrams": len(dgrams), "largest_datagram": maxSeen, "limit": maxPacket})
	}
	_ = math.MaxInt64
	_ = time.Second
}

func minInt(a, b int) int {
	if a < b {
		return a
	}
	return b
}

func bucketIDName(o m3.Options) string {
	if o.HistogramBucketIDName == "" {
		return m3.DefaultHistogramBucketIDName
	}
	return o.HistogramBucketIDName
}
func bucketName(o m3.Options) string {
	if o.HistogramBucketName == "" {
		return m3.DefaultHistogramBucketName
	}
	return o.HistogramBucketName
}
