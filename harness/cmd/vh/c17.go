package main

import (
	"fmt"
	"math"
	"os"
	"runtime"
	"sort"
	"strings"
	"sync"
	"sync/atomic"
	"time"

	prom "github.com/prometheus/client_golang/prometheus"
	dto "github.com/prometheus/client_model/go"
	tally "github.com/uber-go/tally/v4"
	tprom "github.com/uber-go/tally/v4/prometheus"

	"verifharness/mon"
)

func init() { register("C17", runC17) }

var c17Handlers int64

func runC17(c *mon.Ctx) {
	if flagMode == "stress" {
		c.Cases(func(i int, r *mon.Rand) {
			c17Stress(c, r)
			c17GaugeEpochs(c, r.Fork(5))
		})
		return
	}
	c.Cases(func(i int, r *mon.Rand) {
		c17Values(c, r.Fork(1))
		c17Conflicts(c, r.Fork(2))
		c17DirectTwins(c, r.Fork(4))
		if i%3 == 0 || c.Race {
			c17Concurrent(c, r.Fork(3))
		}
	})
}

type c17Series struct {
	Kind      string            `json:"kind"` // counter gauge timer histogram
	Name      string            `json:"name"`
	Labels    map[string]string `json:"labels"`
	Sum       float64           `json:"sum"`
	Last      float64           `json:"last"`
	Updated   bool              `json:"updated"`
	N         uint64            `json:"n"`
	Bounds    []float64         `json:"bounds,omitempty"` // spec in exposition units (seconds for durations)
	IsDur     bool              `json:"is_duration,omitempty"`
	SampleIdx []int             `json:"sample_bucket_index,omitempty"` // durations: index of the reference bucket of each sample
	Samples   []float64         `json:"samples,omitempty"`
}

func labelsOf(m *dto.Metric) map[string]string {
	out := map[string]string{}
	for _, lp := range m.GetLabel() {
		out[lp.GetName()] = lp.GetValue()
	}
	return out
}

func c17Values(c *mon.Ctx, r *mon.Rand) {
	reg := prom.NewRegistry()
	var regErrs []string
	timerType := tprom.SummaryTimerType
	if r.Bool() {
		timerType = tprom.HistogramTimerType
	}
	popts := tprom.Options{Registerer: reg, DefaultTimerType: timerType, OnRegisterError: func(e error) { regErrs = append(regErrs, e.Error()) }}
	if r.Chance(1, 3) {
		popts.DefaultHistogramBuckets = []float64{0.001, 0.5, 1, 2.5, float64(r.Range(3, 100))}
	}
	if r.Chance(1, 3) {
		popts.DefaultSummaryObjectives = map[float64]float64{0.5: 0.01, 0.9: 0.001}
	}
	if r.Chance(1, 4) {
		popts.Gatherer = reg
	}
	rep := tprom.NewReporter(popts)
	prefix := r.Pick("", "svc", "a_b")
	rootTags := map[string]string{}
	if r.Bool() {
		rootTags["env"] = r.Pick("prod", "dev")
	}
	so := tprom.DefaultSanitizerOpts
	root, _ := vNewRoot(tally.ScopeOptions{Prefix: prefix, Tags: rootTags, CachedReporter: rep, Separator: tprom.DefaultSeparator, SanitizeOptions: &so, OmitCardinalityMetrics: r.Bool()}, 0, uint(r.Range(0, 3)))
	type sc struct {
		s      tally.Scope
		prefix string
		tags   map[string]string
	}
	scs := []sc{
		{root.Tagged(map[string]string{"k": "v1"}), prefix, mon.RefOverlay(rootTags, map[string]string{"k": "v1"})},
		{root.Tagged(map[string]string{"k": "v2"}), prefix, mon.RefOverlay(rootTags, map[string]string{"k": "v2"})},
		{root.SubScope("sub"), mon.RefName(prefix, "_", "sub"), rootTags},
		// a child that overrides a tag it inherits (under a subscope of its own, so that the family's label keys stay the same)
		{root.SubScope("ovr").Tagged(map[string]string{"env": "overridden"}), mon.RefName(prefix, "_", "ovr"), mon.RefOverlay(rootTags, map[string]string{"env": "overridden"})},
		// a tag with an empty value is a label value like any other: a series of its own next to k=v1 and k=v2
		{root.Tagged(map[string]string{"k": ""}), prefix, mon.RefOverlay(rootTags, map[string]string{"k": ""})},
		{root.SubScope("sub").Tagged(map[string]string{"zone": "z"}).SubScope("deep"), mon.RefName(prefix, "_", "sub", "deep"), mon.RefOverlay(rootTags, map[string]string{"zone": "z"})},
	}
	// half of the histories pre-register some vectors the way applications do
	// to attach help texts, with the tag keys in an order of the harness's choice
	if r.Bool() {
		keysFor := func(tags map[string]string) []string {
			ks := make([]string, 0, len(tags))
			for k := range tags {
				ks = append(ks, k)
			}
			sort.Strings(ks)
			if r.Bool() {
				for i, j := 0, len(ks)-1; i < j; i, j = i+1, j-1 {
					ks[i], ks[j] = ks[j], ks[i] // reverse alphabetical
				}
			} else {
				r.ShuffleStrings(ks)
			}
			return ks
		}
		for _, s := range scs {
			for _, id := range []string{"a", "b"} {
				if r.Bool() {
					if _, err := rep.RegisterCounter(mon.RefName(s.prefix, "_", "c"+id), keysFor(s.tags), "help"); err != nil {
						regErrs = append(regErrs, "RegisterCounter: "+err.Error())
					}
				}
				if r.Bool() {
					if _, err := rep.RegisterGauge(mon.RefName(s.prefix, "_", "g"+id), keysFor(s.tags), "help"); err != nil {
						regErrs = append(regErrs, "RegisterGauge: "+err.Error())
					}
				}
				if r.Bool() {
					if _, err := rep.RegisterTimer(mon.RefName(s.prefix, "_", "t"+id), keysFor(s.tags), "help", nil); err != nil {
						regErrs = append(regErrs, "RegisterTimer: "+err.Error())
					}
				}
			}
		}
		c.Class("histories-with-preregistered-vectors", 1)
	}
	ref := map[string]*c17Series{}
	var ops []string
	desc := func() interface{} {
		return map[string]interface{}{"prefix": prefix, "root_tags": rootTags, "timer_type": int(timerType), "ops": ops}
	}
	c.Eval(1)
	c.Distinct(mon.Hash64(fmt.Sprint(prefix, rootTags, timerType, r.U64())))
	get := func(kind string, s sc, name string) *c17Series {
		full := mon.RefName(s.prefix, "_", name)
		k := mon.IdentKey(full, s.tags)
		if ref[k] == nil {
			ref[k] = &c17Series{Kind: kind, Name: full, Labels: s.tags}
		}
		return ref[k]
	}
	specs := map[string][]float64{}
	dspecs := map[string][]time.Duration{}
	usedD := map[string]bool{}
	nops := r.Range(5, 50)
	twinSpecs := nops%3 == 0
	scribble := nops%2 == 0
	bursted := false
	panicked := c.Guard("panic-prometheus", desc, func() {
		for i := 0; i < nops; i++ {
			s := scs[r.Intn(len(scs))]
			id := r.Pick("a", "b")
			switch r.Intn(5) {
			case 0:
				v := int64(r.Range(0, 1000))
				if r.Chance(1, 10) {
					v = int64(r.U64() >> 20)
				}
				m := get("counter", s, "c"+id)
				m.Sum += float64(v)
				m.Updated = m.Updated || v != 0
				s.s.Counter("c" + id).Inc(v)
				ops = append(ops, fmt.Sprintf("%s%v.Counter(c%s).Inc(%d)", s.prefix, s.tags, id, v))
			case 1:
				v := r.FiniteFloat()
				if r.Chance(1, 8) {
					v = math.Inf(1 - 2*r.Intn(2))
				} else if r.Chance(1, 12) {
					v = math.NaN() // not a number is a value like any other: it is what the gauge then shows
				}
				m := get("gauge", s, "g"+id)
				m.Last, m.Updated = v, true
				s.s.Gauge("g" + id).Update(v)
				ops = append(ops, fmt.Sprintf("%s%v.Gauge(g%s).Update(%v)", s.prefix, s.tags, id, v))
			case 2:
				d := time.Duration(r.Range(0, 1<<30)) * time.Duration(r.Range(1, 1000))
				if r.Chance(1, 5) {
					d = -d // clock steps: a recorded value like any other
				}
				m := get("timer", s, "t"+id)
				m.N++
				m.Sum += float64(d) / float64(time.Second)
				m.Last += math.Abs(float64(d) / float64(time.Second)) // sum of magnitudes (tolerance scale)
				s.s.Timer("t" + id).Record(d)
				ops = append(ops, fmt.Sprintf("%s%v.Timer(t%s).Record(%d)", s.prefix, s.tags, id, d))
			case 3:
				// value histogram, strictly increasing finite spec per family name
				fam := "hv" + id
				if specs[fam] == nil {
					n := r.Range(1, 12)
					cur := float64(r.Range(-50, 50)) / 4
					for j := 0; j < n; j++ {
						specs[fam] = append(specs[fam], cur)
						cur += float64(r.Range(1, 40)) / 8
					}
				}
				sp := specs[fam]
				xs := r.SamplesForValues(sp, 2)
				x := xs[r.Intn(len(xs))]
				if math.IsNaN(x) {
					x = sp[0]
				}
				m := get("histogram", s, fam)
				m.Bounds = sp
				m.Samples = append(m.Samples, x)
				given := tally.ValueBuckets(append([]float64(nil), sp...))
				s.s.Histogram(fam, given).RecordValue(x)
				ops = append(ops, fmt.Sprintf("%s%v.Histogram(%s,%v).RecordValue(%v)", s.prefix, s.tags, fam, sp, x))
				if !bursted && r.Chance(1, 25) {
					// a burst: more samples in one bucket within one report interval
					// than any 16-bit quantity holds
					bursted = true
					n := r.Range(65537, 70000)
					h := s.s.Histogram(fam, given)
					for k := 0; k < n; k++ {
						h.RecordValue(x)
						m.Samples = append(m.Samples, x)
					}
					ops = append(ops, fmt.Sprintf("... and %d more times", n))
					c.Event("histogram-bursts-above-65536-samples", 1)
				}
				if scribble {
					// the caller re-uses its slice for something else; the series of
					// another tag value set, created later, still has these bounds
					for j := range given {
						given[j] = float64(1000 - j)
					}
					ops = append(ops, "caller overwrites the slice it passed")
				}
			default:
				fam := "hd" + id
				if dspecs[fam] == nil {
					n := r.Range(1, 12)
					cur := time.Duration(r.Range(0, 1000)) * time.Microsecond
					// half of the specs reach far beyond one second with arbitrary
					// nanosecond digits (where different seconds conversions disagree)
					wide := r.Bool()
					if wide {
						cur = time.Duration(r.U64() >> uint(r.Range(24, 50)))
					}
					for j := 0; j < n; j++ {
						dspecs[fam] = append(dspecs[fam], cur)
						if wide {
							cur += time.Duration(1 + r.U64()>>uint(r.Range(28, 50)))
						} else {
							cur += time.Duration(r.Range(1, 1<<20))
						}
					}
				}
				if twinSpecs && fam == "hdb" && !usedD["hdb"] && len(dspecs["hda"]) >= 2 {
					// hdb gets a bound set with the element sum of hda's (one bound moved
					// up, another down by the same amount): the two collide in tally's
					// bucket cache and must keep their own bounds
					a := dspecs["hda"]
					if gap := a[1] - a[0]; gap >= 3 {
						u := gap / 3
						tw := append([]time.Duration(nil), a...)
						tw[0], tw[1] = a[0]+u, a[1]-u
						dspecs["hdb"] = tw
					}
				}
				usedD[fam] = true
				sp := dspecs[fam]
				xs := r.SamplesForDurations(sp, 1)
				x := xs[r.Intn(len(xs))]
				if x > 1<<50 {
					x = 1 << 50
				}
				if x < -(1 << 50) {
					x = -(1 << 50)
				}
				m := get("histogram", s, fam)
				m.Bounds = nil
				for _, d := range sp {
					m.Bounds = append(m.Bounds, float64(d)/float64(time.Second))
				}
				// compare in the duration domain: remember the sample as the seconds value of its reference upper bound
				u := mon.RefUpperD(sp, x)
				m.Samples = append(m.Samples, float64(u)/float64(time.Second))
				m.IsDur = true
				bi := len(sp) // +Inf bucket
				for j, b := range sp {
					if b == u {
						bi = j
						break
					}
				}
				m.SampleIdx = append(m.SampleIdx, bi)
				s.s.Histogram(fam, tally.DurationBuckets(append([]time.Duration(nil), sp...))).RecordDuration(x)
				ops = append(ops, fmt.Sprintf("%s%v.Histogram(%s,%v).RecordDuration(%d)", s.prefix, s.tags, fam, sp, x))
			}
			if r.Chance(1, 6) {
				tally.VerifReportPass(root)
				ops = append(ops, "report pass")
			}
		}
		tally.VerifReportPass(root)
	})
	if panicked {
		return
	}
	identity := promKinds == nil || promKinds["identity"]
	if len(regErrs) > 0 {
		if identity {
			c.Violation("unexpected-register-error", map[string]interface{}{"why": "a history without name reuse produced registration errors", "errors": regErrs, "case": desc()})
		}
		return
	}
	fams, err := reg.Gather()
	if err != nil {
		c.Violation("gather-error", map[string]interface{}{"err": err.Error(), "case": desc()})
		return
	}
	seen := map[string]bool{}
	famOf := map[string]string{}
	for _, f := range fams {
		if strings.HasPrefix(f.GetName(), "tally_internal") {
			continue
		}
		for _, m := range f.GetMetric() {
			c.Event("series-gathered", 1)
			k := mon.IdentKey(f.GetName(), labelsOf(m))
			s := ref[k]
			if s == nil {
				if identity {
					c.Violation("prometheus-unknown-series", map[string]interface{}{"why": fmt.Sprintf("series %s%v was never recorded", f.GetName(), labelsOf(m)), "case": desc()})
				}
				continue
			}
			seen[k] = true
			famOf[k] = f.GetName()
			bad := func(why string) {
				if promKinds != nil && !promKinds[s.Kind] {
					return // stack mode of another property: not its kind of evidence
				}
				c.Violation("prometheus-value/"+s.Kind, map[string]interface{}{"why": why, "series": s, "case": desc()})
			}
			switch s.Kind {
			case "counter":
				if m.GetCounter() == nil || m.GetCounter().GetValue() != s.Sum {
					bad(fmt.Sprintf("counter value %v, sum of increments %v", m.GetCounter().GetValue(), s.Sum))
				}
			case "gauge":
				if m.GetGauge() == nil || m.GetGauge().GetValue() != s.Last && !(math.IsNaN(m.GetGauge().GetValue()) && math.IsNaN(s.Last)) {
					bad(fmt.Sprintf("gauge value %v, last update %v", m.GetGauge().GetValue(), s.Last))
				}
			case "timer":
				var n uint64
				if m.GetSummary() != nil {
					n = m.GetSummary().GetSampleCount()
				} else if m.GetHistogram() != nil {
					n = m.GetHistogram().GetSampleCount()
				} else {
					bad("timer is neither a summary nor a histogram")
				}
				if n != s.N {
					bad(fmt.Sprintf("timer sample count %d, recorded %d", n, s.N))
				}
				if promKinds["timer-value"] {
					// C10's stack mode: every delivery carries the recorded duration, so
					// the exposed sum is the sum of the recorded values (in seconds)
					var sum float64
					if m.GetSummary() != nil {
						sum = m.GetSummary().GetSampleSum()
					} else if m.GetHistogram() != nil {
						sum = m.GetHistogram().GetSampleSum()
					}
					if math.Abs(sum-s.Sum) > 1e-9*(1+s.Last) {
						bad(fmt.Sprintf("timer sample sum %v s, the recorded durations add up to %v s", sum, s.Sum))
					}
				}
			case "histogram":
				h := m.GetHistogram()
				if h == nil {
					bad("not a histogram")
					break
				}
				if h.GetSampleCount() != uint64(len(s.Samples)) {
					bad(fmt.Sprintf("histogram sample count %d, recorded %d", h.GetSampleCount(), len(s.Samples)))
				}
				if len(h.GetBucket()) != len(s.Bounds) {
					bad(fmt.Sprintf("histogram exposes %d buckets, spec has %d bounds", len(h.GetBucket()), len(s.Bounds)))
					break
				}
				for i, b := range h.GetBucket() {
					if ub := b.GetUpperBound(); ub != s.Bounds[i] && !(s.IsDur && math.Abs(ub-s.Bounds[i]) <= 4e-16*math.Abs(s.Bounds[i])) {
						bad(fmt.Sprintf("bucket %d upper bound %v, spec %v", i, b.GetUpperBound(), s.Bounds[i]))
						break
					}
					var want uint64
					if s.IsDur {
						// durations: compared by bucket index in the duration domain, so that
						// no particular nanoseconds-to-seconds rounding is demanded
						for _, bi := range s.SampleIdx {
							if bi <= i {
								want++
							}
						}
					} else {
						for _, x := range s.Samples {
							if x <= s.Bounds[i] {
								want++
							}
						}
					}
					if b.GetCumulativeCount() != want {
						bad(fmt.Sprintf("cumulative count at %v is %d, %d recorded samples are <= it", s.Bounds[i], b.GetCumulativeCount(), want))
						break
					}
				}
			}
		}
	}
	for k, s := range ref {
		if seen[k] {
			continue
		}
		// a counter that only ever received zero increments and a metric whose first pass has not delivered anything are not exposed
		if s.Kind == "counter" && !s.Updated {
			continue
		}
		if identity || promKinds[s.Kind] {
			c.Violation("prometheus-missing-series", map[string]interface{}{"why": "recorded series absent from Gather()", "series": s, "case": desc()})
		}
	}
	// same name + same keys + different values: separate series of one family
	byName := map[string]int{}
	for k := range seen {
		byName[famOf[k]]++
	}
	for _, n := range byName {
		if n > 1 {
			c.Class("families-with-several-series", 1)
		}
	}
	if c.WantSample() {
		c.Sample(desc())
	}
}

// c17Conflicts: every ordered pair of kinds reusing one name, and the same
// kind with different tag keys; panicking and silent callbacks.
func c17Conflicts(c *mon.Ctx, r *mon.Rand) {
	kinds := []string{"counter", "gauge", "timer-summary", "timer-histogram", "histogram", "register-timer-summary", "register-timer-histogram", "register-counter", "register-gauge"}
	first, second := kinds[r.Intn(len(kinds))], kinds[r.Intn(len(kinds))]
	if r.Chance(1, 8) {
		// the name is taken by a collector the application registered itself in the
		// same registry (not through the reporter)
		first = "foreign"
	}
	panicking := r.Bool()
	sameKeys := !r.Chance(1, 4)
	viaScope := r.Bool()
	c.Eval(1)
	c.Distinct(mon.Hash64(first, second, fmt.Sprint(panicking, sameKeys, viaScope)))
	desc := map[string]interface{}{"first": first, "second": second, "panicking_callback": panicking, "same_tag_keys": sameKeys, "via_scope": viaScope}
	reg := prom.NewRegistry()
	curReg := reg
	var errs []error
	type cbPanic struct{ err error }
	cb := func(e error) {
		errs = append(errs, e)
		if panicking {
			panic(cbPanic{e})
		}
	}
	tags1 := map[string]string{"k": "v"}
	tags2 := map[string]string{"k": "w"}
	if !sameKeys {
		tags2 = map[string]string{"other": "w"}
	}
	use := func(kind string, tags map[string]string, rep tprom.Reporter, sc tally.Scope) {
		timerType := func(k string) tprom.TimerType {
			if strings.HasSuffix(k, "histogram") {
				return tprom.HistogramTimerType
			}
			return tprom.SummaryTimerType
		}
		switch kind {
		case "foreign":
			keys := make([]string, 0, len(tags))
			for k := range tags {
				keys = append(keys, k)
			}
			sort.Strings(keys)
			_ = curReg.Register(prom.NewGaugeVec(prom.GaugeOpts{Name: "x", Help: "somebody else's x"}, keys))
		case "counter":
			if sc != nil {
				sc.Tagged(tags).Counter("x").Inc(1)
			} else {
				rep.AllocateCounter("x", tags).ReportCount(1)
			}
		case "gauge":
			if sc != nil {
				sc.Tagged(tags).Gauge("x").Update(1)
			} else {
				rep.AllocateGauge("x", tags).ReportGauge(1)
			}
		case "timer-summary", "timer-histogram":
			if sc != nil {
				sc.Tagged(tags).Timer("x").Record(time.Second)
			} else {
				rep.AllocateTimer("x", tags).ReportTimer(time.Second)
			}
		case "histogram":
			if sc != nil {
				sc.Tagged(tags).Histogram("x", tally.ValueBuckets{1, 2}).RecordValue(1)
			} else {
				h := rep.AllocateHistogram("x", tags, tally.ValueBuckets{1, 2})
				h.ValueBucket(1, 2).ReportSamples(1)
				h.DurationBucket(time.Second, 2*time.Second).ReportSamples(1)
			}
		case "register-counter", "register-gauge":
			// the Register* entry points with one and the same help text for every kind
			// (Prometheus tells collectors apart by name, help and label names only)
			keys := make([]string, 0, len(tags))
			for k := range tags {
				keys = append(keys, k)
			}
			sort.Strings(keys)
			if kind == "register-counter" {
				if v, err := rep.RegisterCounter("x", keys, "x timer"); err == nil && v == nil {
					c.Violation("register-nil-vector", map[string]interface{}{"why": "RegisterCounter returned a nil vector and a nil error", "case": desc})
				}
			} else {
				if v, err := rep.RegisterGauge("x", keys, "x timer"); err == nil && v == nil {
					c.Violation("register-nil-vector", map[string]interface{}{"why": "RegisterGauge returned a nil vector and a nil error", "case": desc})
				}
			}
		case "register-timer-summary", "register-timer-histogram":
			keys := make([]string, 0, len(tags))
			for k := range tags {
				keys = append(keys, k)
			}
			sort.Strings(keys)
			tu, err := rep.RegisterTimer("x", keys, "x timer", &tprom.RegisterTimerOptions{TimerType: timerType(kind)})
			if err == nil {
				// a nil vector with a nil error is a trap for the caller
				if timerType(kind) == tprom.HistogramTimerType && tu.Histogram == nil {
					c.Violation("register-timer-nil-vector", map[string]interface{}{"why": "RegisterTimer returned a nil histogram vector and a nil error", "case": desc})
				}
				if timerType(kind) == tprom.SummaryTimerType && tu.Summary == nil {
					c.Violation("register-timer-nil-vector", map[string]interface{}{"why": "RegisterTimer returned a nil summary vector and a nil error", "case": desc})
				}
			}
		}
	}
	// the reporter's default timer type follows the first timer kind involved
	defType := tprom.SummaryTimerType
	for _, k := range []string{first, second} {
		if k == "timer-histogram" {
			defType = tprom.HistogramTimerType
			break
		}
		if k == "timer-summary" {
			break
		}
	}
	rep := tprom.NewReporter(tprom.Options{Registerer: reg, DefaultTimerType: defType, OnRegisterError: cb})
	// every 16th scenario builds the reporter from a Configuration instead: the
	// callback is then the one the configuration selects ("none", "log",
	// "stderr" must return; the default panics with the error itself)
	cfgMode := ""
	cfgBoth := false
	viaConfig := r.Chance(1, 8)
	if viaConfig {
		cfgMode = r.Pick("none", "log", "stderr", "")
		tt := "summary"
		if defType == tprom.HistogramTimerType {
			tt = "histogram"
		}
		n := atomic.AddInt64(&c17Handlers, 1)
		copts := tprom.ConfigurationOptions{Registry: reg}
		// half of them also pass the callback programmatically: that one is then
		// the configured callback, whatever the configuration's string says
		cfgBoth = r.Bool()
		if cfgBoth {
			copts.OnError = cb
			cfgMode = r.Pick("none", "log", "stderr", "", "panic", "bogus")
		}
		cr, err := tprom.Configuration{OnError: cfgMode, TimerType: tt, HandlerPath: fmt.Sprintf("/metrics-%d-%d", os.Getpid(), n)}.NewReporter(copts)
		if err != nil {
			c.Violation("configuration-newreporter-error", map[string]interface{}{"why": err.Error(), "case": desc})
			return
		}
		rep = cr
		desc["via_configuration_onerror"] = cfgMode
		desc["callback_also_passed_in_configuration_options"] = cfgBoth
		if !cfgBoth {
			panicking = cfgMode == ""
		}
		c.Class("conflicts-through-Configuration-"+cfgMode, 1)
	}
	var sc tally.Scope
	if viaScope {
		sc, _ = vNewRoot(tally.ScopeOptions{CachedReporter: rep, Separator: "_", OmitCardinalityMetrics: true}, 0, 1)
	}
	run := func(step string, f func()) {
		defer func() {
			p := recover()
			if p == nil {
				return
			}
			if cp, ok := p.(cbPanic); ok {
				_ = cp
				c.Class("callback-panics-observed", 1)
				return
			}
			if err, isErr := p.(error); isErr && viaConfig && !cfgBoth && cfgMode == "" {
				if _, rt := err.(runtime.Error); !rt {
					c.Class("callback-panics-observed", 1) // the configuration's default callback panics with the error
					return
				}
			}
			sig := "prometheus-panic"
			if _, ok := p.(runtime.Error); ok {
				sig = "prometheus-runtime-panic"
			}
			c.Violation(sig, map[string]interface{}{"why": fmt.Sprintf("%s panicked with %T: %v", step, p, p), "case": desc})
		}()
		f()
	}
	stopWatch := c.Watchdog(60*time.Second, "no-progress(registration conflict hangs)", desc)
	defer stopWatch()
	run("first use of "+first, func() { use(first, tags1, rep, sc) })
	n0 := len(errs)
	run("second use of "+second, func() { use(second, tags2, rep, sc) })
	// the caller that recovered from the callback's panic (or was handed a no-op)
	// simply asks again, with the same name and tags, and records on what it gets
	run("second use repeated, "+second, func() { use(second, tags2, rep, sc) })
	// one more conflicting use after the callback has been through the first
	// conflict (and possibly panicked, with the caller recovering): it must be
	// handled like the first
	tags3 := map[string]string{"k": "third"}
	if !sameKeys {
		tags3 = map[string]string{"yet-another": "w"}
	}
	run("third use, again of "+second, func() { use(second, tags3, rep, sc) })
	// and the first kind once more, with the tag keys of the first use and a new
	// value: one more series of the family the first use registered, whatever
	// was refused in between
	tags4 := map[string]string{"k": "again"}
	run("fourth use, again of "+first, func() { use(first, tags4, rep, sc) })
	if sc != nil {
		run("report pass", func() { tally.VerifReportPass(sc) })
	}
	if len(errs) > n0 {
		c.Class("registration-errors-reported-to-callback", 1)
	} else {
		c.Class("second-use-accepted", 1)
	}
	run("gather", func() {
		fams, err := reg.Gather()
		if err != nil {
			c.Violation("gather-error", map[string]interface{}{"err": err.Error(), "case": desc})
			return
		}
		if n0 == 0 && !strings.HasPrefix(first, "register-") && first != "foreign" {
			found := false
			for _, f := range fams {
				for _, m := range f.GetMetric() {
					if f.GetName() == "x" && labelsOf(m)["k"] == "again" {
						found = true
					}
				}
			}
			if !found {
				c.Violation("series-lost-after-refused-registration", map[string]interface{}{"why": "the first use of the name was accepted; a later use of the same kind with the same tag keys (k=again), made after other uses of the name had been refused, shows no series in Gather()", "case": desc})
			}
			c.Event("fourth-use-series-checked", 1)
		}
	})
	if cfgBoth {
		// the same three uses on a reporter that was given the callback directly:
		// the programmatic callback must have seen the same rejections
		nCfg := len(errs)
		errs = nil
		reg2 := prom.NewRegistry()
		curReg = reg2
		rep2 := tprom.NewReporter(tprom.Options{Registerer: reg2, DefaultTimerType: defType, OnRegisterError: cb})
		var sc2 tally.Scope
		if viaScope {
			sc2, _ = vNewRoot(tally.ScopeOptions{CachedReporter: rep2, Separator: "_", OmitCardinalityMetrics: true}, 0, 1)
		}
		quiet := func(f func()) {
			defer func() { recover() }()
			f()
		}
		quiet(func() { use(first, tags1, rep2, sc2) })
		quiet(func() { use(second, tags2, rep2, sc2) })
		quiet(func() { use(second, tags2, rep2, sc2) })
		quiet(func() { use(second, tags3, rep2, sc2) })
		quiet(func() { use(first, tags4, rep2, sc2) })
		if len(errs) != nCfg {
			c.Violation("configured-callback-not-called", map[string]interface{}{"why": fmt.Sprintf("the callback passed in ConfigurationOptions saw %d registration errors; the same uses on a reporter given the same callback in Options produce %d", nCfg, len(errs)), "case": desc})
		}
		c.Event("configuration-callback-comparisons", 1)
	}
}

// c17Concurrent: G goroutines released together make the first use of the
// same families (same name and tag keys; own or shared tag values) on one
// reporter, the way differently tagged scopes of one application do. No
// registration error may be reported, and every series must show what was
// recorded through it.
func c17Concurrent(c *mon.Ctx, r *mon.Rand) {
	reg := prom.NewRegistry()
	var emu sync.Mutex
	var regErrs []string
	timerType := tprom.SummaryTimerType
	if r.Bool() {
		timerType = tprom.HistogramTimerType
	}
	rep := tprom.NewReporter(tprom.Options{Registerer: reg, DefaultTimerType: timerType, OnRegisterError: func(e error) {
		emu.Lock()
		regErrs = append(regErrs, e.Error())
		emu.Unlock()
	}})
	G := r.Range(2, 8)
	shared := r.Bool() // all goroutines use the same tag value (one series) or their own
	rounds := r.Range(1, 5)
	desc := map[string]interface{}{"goroutines": G, "shared_tag_value": shared, "rounds": rounds, "timer_type": int(timerType)}
	c.Eval(1)
	stop := c.Watchdog(300*time.Second, "no-progress", desc)
	defer stop()
	vb := tally.ValueBuckets{1, 2, 4}
	db := tally.DurationBuckets{time.Millisecond, time.Second}
	var panics sync.Map
	for round := 0; round < rounds; round++ {
		var start, done sync.WaitGroup
		start.Add(1)
		for g := 0; g < G; g++ {
			g := g
			done.Add(1)
			go func() {
				defer done.Done()
				defer func() {
					if p := recover(); p != nil {
						panics.Store(g, fmt.Sprint(p))
					}
				}()
				tv := fmt.Sprintf("v%d", g)
				if shared {
					tv = "v"
				}
				tags := map[string]string{"k": tv, "z": "1"}
				start.Wait()
				sfx := fmt.Sprint(round)
				rep.AllocateCounter("cc"+sfx, tags).ReportCount(int64(g + 1))
				rep.AllocateGauge("cg"+sfx, tags).ReportGauge(float64(g + 1))
				rep.AllocateTimer("ct"+sfx, tags).ReportTimer(time.Duration(g+1) * time.Millisecond)
				hv := rep.AllocateHistogram("chv"+sfx, tags, vb)
				hv.ValueBucket(1, 2).ReportSamples(int64(g + 1))
				hd := rep.AllocateHistogram("chd"+sfx, tags, db)
				hd.DurationBucket(time.Millisecond, time.Second).ReportSamples(int64(g + 1))
			}()
		}
		start.Done()
		done.Wait()
	}
	panics.Range(func(k, v interface{}) bool {
		c.Violation("panic-prometheus-concurrent", map[string]interface{}{"why": v, "case": desc})
		return true
	})
	c.Event("concurrent-first-use-allocations", int64(5*G*rounds))
	if len(regErrs) > 0 {
		c.Violation("unexpected-register-error", map[string]interface{}{"why": "concurrent first use of one family (same name, same tag keys) reported registration errors", "errors": regErrs, "case": desc})
	}
	fams, err := reg.Gather()
	if err != nil {
		c.Violation("gather-error", map[string]interface{}{"err": err.Error(), "case": desc})
		return
	}
	got := map[string]float64{}
	for _, f := range fams {
		for _, m := range f.GetMetric() {
			k := f.GetName() + "|" + labelsOf(m)["k"]
			switch {
			case m.GetCounter() != nil:
				got[k] = m.GetCounter().GetValue()
			case m.GetGauge() != nil:
				got[k] = m.GetGauge().GetValue()
			case m.GetSummary() != nil:
				got[k] = float64(m.GetSummary().GetSampleCount())
			case m.GetHistogram() != nil:
				got[k] = float64(m.GetHistogram().GetSampleCount())
			}
		}
	}
	sumAll := float64(G * (G + 1) / 2)
	for round := 0; round < rounds; round++ {
		sfx := fmt.Sprint(round)
		for g := 0; g < G; g++ {
			tv := fmt.Sprintf("v%d", g)
			own := float64(g + 1)
			wantC, wantT, wantH := own, 1.0, own
			if shared {
				tv = "v"
				wantC, wantT, wantH = sumAll, float64(G), sumAll
			}
			chk := func(name string, want float64, exact bool) {
				v, ok := got[name+sfx+"|"+tv]
				if !ok {
					c.Violation("prometheus-missing-series", map[string]interface{}{"why": fmt.Sprintf("series %s%s{k=%s} absent after concurrent first use", name, sfx, tv), "case": desc})
					return
				}
				if exact && v != want {
					c.Violation("prometheus-value/concurrent", map[string]interface{}{"why": fmt.Sprintf("series %s%s{k=%s} shows %v, recorded %v", name, sfx, tv, v, want), "case": desc})
				}
			}
			chk("cc", wantC, true)
			chk("ct", wantT, true)
			chk("chv", wantH, true)
			chk("chd", wantH, true)
			if shared {
				v, ok := got["cg"+sfx+"|"+tv]
				if !ok || v < 1 || v > float64(G) || v != math.Trunc(v) {
					c.Violation("prometheus-value/concurrent", map[string]interface{}{"why": fmt.Sprintf("gauge cg%s{k=%s} shows %v (present=%v), not one of the values set", sfx, tv, v, ok), "case": desc})
				}
			} else {
				chk("cg", own, true)
			}
		}
	}
	c.Distinct(mon.Hash64("conc", fmt.Sprint(desc), fmt.Sprint(r.U64())))
}

// c17Stress: recording goroutines, report passes and delay injection before
// every increment; once the recorders have stopped, one more pass must leave
// Gather() showing exactly what was recorded (counter sums, histogram sample
// counts) - nothing may be stranded by a pass that ran next to a Record.
func c17Stress(c *mon.Ctx, r *mon.Rand) {
	reg := prom.NewRegistry()
	var emu sync.Mutex
	var regErrs []string
	rep := tprom.NewReporter(tprom.Options{Registerer: reg, OnRegisterError: func(e error) {
		emu.Lock()
		regErrs = append(regErrs, e.Error())
		emu.Unlock()
	}})
	so := tprom.DefaultSanitizerOpts
	prof := mon.RandomProfile(r, []int{tally.VerifCtrBeforeAdd, tally.VerifCtrLoaded1, tally.VerifRegScopeReported, tally.VerifGaugeBetweenStores, tally.VerifGaugeSwapped}, r.Intn(3))
	prof.Prob[tally.VerifCtrBeforeAdd] = r.Range(50, 400)
	inj := mon.NewDelayInjector(r.U64(), prof, false)
	inj.Install()
	defer inj.Uninstall()
	root, _ := vNewRoot(tally.ScopeOptions{CachedReporter: rep, Separator: tprom.DefaultSeparator, SanitizeOptions: &so, OmitCardinalityMetrics: true}, 0, uint(r.Range(0, 3)))
	W := r.Range(2, 5)
	const nH = 24
	iters := r.Range(200, 1200)
	c.Eval(1)
	desc := map[string]interface{}{"workers": W, "iterations": iters, "sparse_histograms_per_worker": nH}
	stopW := c.Watchdog(300*time.Second, "no-progress", desc)
	defer stopW()
	hsum := make([][]int64, W)
	csum := make([]int64, W)
	glast := make([]float64, W)
	var wg, wgP sync.WaitGroup
	var stop int32
	for w := 0; w < W; w++ {
		hsum[w] = make([]int64, nH)
		wg.Add(1)
		wr := r.Fork(uint64(10 + w))
		go func(w int) {
			defer wg.Done()
			sc := root.Tagged(map[string]string{"w": fmt.Sprint(w)})
			ctr := sc.Counter("sc")
			gg := sc.Gauge("sg")
			hs := make([]tally.Histogram, nH)
			for k := range hs {
				hs[k] = sc.Histogram(fmt.Sprintf("sh%d", k), tally.ValueBuckets{1, 2})
			}
			for i := 0; i < iters; i++ {
				ctr.Inc(1)
				csum[w]++
				if i%3 == 0 {
					glast[w] = float64(i + 1)
					gg.Update(glast[w])
				}
				if i%4 == 0 {
					k := wr.Intn(nH)
					hs[k].RecordValue(1.5)
					hsum[w][k]++
				}
			}
		}(w)
	}
	wgP.Add(1)
	go func() {
		defer wgP.Done()
		for atomic.LoadInt32(&stop) == 0 {
			tally.VerifReportPass(root)
		}
	}()
	wg.Wait()
	atomic.StoreInt32(&stop, 1)
	wgP.Wait()
	atomic.StoreInt32(&inj.Off, 1)
	tally.VerifReportPass(root)
	if len(regErrs) > 0 {
		c.Violation("unexpected-register-error", map[string]interface{}{"errors": regErrs, "case": desc})
	}
	fams, err := reg.Gather()
	if err != nil {
		c.Violation("gather-error", map[string]interface{}{"err": err.Error(), "case": desc})
		return
	}
	gotC := map[string]float64{}
	gotH := map[string]uint64{}
	gotG := map[string]float64{}
	for _, f := range fams {
		for _, m := range f.GetMetric() {
			k := f.GetName() + "|" + labelsOf(m)["w"]
			if m.GetCounter() != nil {
				gotC[k] = m.GetCounter().GetValue()
			}
			if m.GetHistogram() != nil {
				gotH[k] = m.GetHistogram().GetSampleCount()
			}
			if m.GetGauge() != nil {
				gotG[k] = m.GetGauge().GetValue()
			}
		}
	}
	for w := 0; w < W; w++ {
		if got := gotC["sc|"+fmt.Sprint(w)]; got != float64(csum[w]) {
			c.Violation("prometheus-value/counter", map[string]interface{}{"why": fmt.Sprintf("counter sc{w=%d} shows %v after the final pass, %d recorded", w, got, csum[w]), "case": desc})
		}
		if got := gotG["sg|"+fmt.Sprint(w)]; got != glast[w] {
			c.Violation("prometheus-value/gauge", map[string]interface{}{"why": fmt.Sprintf("gauge sg{w=%d} shows %v after the final pass, the last update was %v (passes ran next to the updates)", w, got, glast[w]), "case": desc})
		}
		for k := 0; k < nH; k++ {
			if got := gotH[fmt.Sprintf("sh%d|%d", k, w)]; got != uint64(hsum[w][k]) {
				c.Violation("prometheus-value/histogram", map[string]interface{}{"why": fmt.Sprintf("histogram sh%d{w=%d} shows %d samples after the final pass, %d recorded (passes ran next to the records)", k, w, got, hsum[w][k]), "case": desc})
			}
		}
	}
	c.Event("stress-series-checked", int64(W*(nH+1)))
	c.Distinct(mon.Hash64("stress", fmt.Sprint(desc), fmt.Sprint(r.U64())))
}

// c17GaugeEpochs: "after a report pass, gathering shows for every gauge its
// last update" while passes run all the time: in each of a few hundred epochs
// every gauge is updated once, at a moment that falls anywhere inside the
// running passes; two complete passes later Gather() must show that value.
func c17GaugeEpochs(c *mon.Ctx, r *mon.Rand) {
	reg := prom.NewRegistry()
	rep := tprom.NewReporter(tprom.Options{Registerer: reg, OnRegisterError: func(e error) {}})
	so := tprom.DefaultSanitizerOpts
	root, _ := vNewRoot(tally.ScopeOptions{CachedReporter: rep, Separator: tprom.DefaultSeparator, SanitizeOptions: &so, OmitCardinalityMetrics: true}, 0, uint(r.Range(0, 3)))
	G := r.Range(8, 48)
	epochs := r.Range(100, 400)
	desc := map[string]interface{}{"scenario": "gauge epochs under continuous passes", "gauges": G, "epochs": epochs}
	c.Eval(1)
	stopW := c.Watchdog(300*time.Second, "no-progress", desc)
	defer stopW()
	gs := make([]tally.Gauge, G)
	for i := range gs {
		gs[i] = root.Tagged(map[string]string{"i": fmt.Sprint(i % 7)}).Gauge(fmt.Sprintf("eg%d", i))
	}
	var passes int64
	var stop int32
	var wg sync.WaitGroup
	wg.Add(1)
	go func() {
		defer wg.Done()
		for atomic.LoadInt32(&stop) == 0 {
			tally.VerifReportPass(root)
			atomic.AddInt64(&passes, 1)
		}
	}()
	bad := 0
	for e := 1; e <= epochs && bad == 0; e++ {
		for i := range gs {
			gs[i].Update(float64(e))
			if i%5 == 0 {
				runtime.Gosched()
			}
		}
		for p0 := atomic.LoadInt64(&passes); atomic.LoadInt64(&passes) < p0+2; {
			runtime.Gosched()
		}
		fams, err := reg.Gather()
		if err != nil {
			c.Violation("gather-error", map[string]interface{}{"err": err.Error(), "case": desc})
			break
		}
		seen := 0
		for _, f := range fams {
			for _, m := range f.GetMetric() {
				if m.GetGauge() == nil || !strings.HasPrefix(f.GetName(), "eg") {
					continue
				}
				seen++
				if v := m.GetGauge().GetValue(); v != float64(e) {
					c.Violation("prometheus-value/gauge", map[string]interface{}{"why": fmt.Sprintf("epoch %d: gauge %s shows %v two complete passes after it was updated to %d (passes run all the time)", e, f.GetName(), v, e), "case": desc})
					bad++
					break
				}
			}
		}
		if seen != G && bad == 0 {
			c.Violation("prometheus-missing-series", map[string]interface{}{"why": fmt.Sprintf("epoch %d: %d of %d gauges are exposed", e, seen, G), "case": desc})
			bad++
		}
		c.Event("gauge-epochs-checked", 1)
	}
	atomic.StoreInt32(&stop, 1)
	wg.Wait()
	c.Distinct(mon.Hash64("gauge-epochs", fmt.Sprint(desc), fmt.Sprint(r.U64())))
}

// c17DirectTwins: the reporter used directly (no scope, no sanitizer) with two
// tag sets of the same keys whose values contain ',' and '=' such that their
// joined renderings coincide ({a:"1,b=2", b:"3"} and {a:"1", b:"2,b=3"}): two
// series of one family, each with its own value - for every kind of metric.
func c17DirectTwins(c *mon.Ctx, r *mon.Rand) {
	reg := prom.NewRegistry()
	var regErrs []string
	rep := tprom.NewReporter(tprom.Options{Registerer: reg, OnRegisterError: func(e error) { regErrs = append(regErrs, e.Error()) }})
	x := r.Ident(3)
	ta := map[string]string{"a": x + ",b=2", "b": "3"}
	tb := map[string]string{"a": x, "b": "2,b=3"}
	if r.Bool() {
		ta, tb = tb, ta
	}
	desc := map[string]interface{}{"tags_of_first_series": ta, "tags_of_second_series": tb}
	ok := c.Guard("prometheus-panic", func() interface{} { return desc }, func() {
		rep.AllocateCounter("twin_c", mon.CopyTags(ta)).ReportCount(1)
		rep.AllocateCounter("twin_c", mon.CopyTags(tb)).ReportCount(10)
		rep.AllocateGauge("twin_g", mon.CopyTags(ta)).ReportGauge(1)
		rep.AllocateGauge("twin_g", mon.CopyTags(tb)).ReportGauge(10)
		rep.AllocateTimer("twin_t", mon.CopyTags(ta)).ReportTimer(time.Second)
		tt := rep.AllocateTimer("twin_t", mon.CopyTags(tb))
		tt.ReportTimer(time.Second)
		tt.ReportTimer(time.Second)
		rep.AllocateHistogram("twin_h", mon.CopyTags(ta), tally.ValueBuckets{1, 2}).ValueBucket(0, 1).ReportSamples(1)
		rep.AllocateHistogram("twin_h", mon.CopyTags(tb), tally.ValueBuckets{1, 2}).ValueBucket(0, 1).ReportSamples(10)
		// two handles on one series (two scopes that render to the same name and
		// tags): the series shows the last value set through either
		g1, g2 := rep.AllocateGauge("two_handles_g", mon.CopyTags(ta)), rep.AllocateGauge("two_handles_g", mon.CopyTags(ta))
		g1.ReportGauge(1)
		g2.ReportGauge(2)
		g1.ReportGauge(1)
		c1, c2 := rep.AllocateCounter("two_handles_c", mon.CopyTags(ta)), rep.AllocateCounter("two_handles_c", mon.CopyTags(ta))
		c1.ReportCount(1)
		c2.ReportCount(2)
		c1.ReportCount(1)
	})
	_ = ok
	fams, err := reg.Gather()
	if err != nil {
		c.Violation("gather-error", map[string]interface{}{"err": err.Error(), "case": desc})
		return
	}
	want := map[string][2]float64{"twin_c": {1, 10}, "twin_g": {1, 10}, "twin_t": {1, 2}, "twin_h": {1, 10}}
	for _, f := range fams {
		w, mine := want[f.GetName()]
		if !mine {
			continue
		}
		delete(want, f.GetName())
		got := map[string]float64{}
		for _, m := range f.GetMetric() {
			l := labelsOf(m)
			v := 0.0
			switch {
			case m.Counter != nil:
				v = m.Counter.GetValue()
			case m.Gauge != nil:
				v = m.Gauge.GetValue()
			case m.Summary != nil:
				v = float64(m.Summary.GetSampleCount())
			case m.Histogram != nil:
				v = float64(m.Histogram.GetSampleCount())
			}
			got[l["a"]+"|"+l["b"]] = v
		}
		if len(got) != 2 || got[ta["a"]+"|"+ta["b"]] != w[0] || got[tb["a"]+"|"+tb["b"]] != w[1] {
			c.Violation("prometheus-series-merged", map[string]interface{}{"why": fmt.Sprintf("family %s: series by (a|b) %v; two series were fed, %v with %v and %v with %v", f.GetName(), got, ta, w[0], tb, w[1]), "case": desc})
		}
		c.Event("twin-series-families-checked", 1)
	}
	for _, f := range fams {
		if n := f.GetName(); n == "two_handles_g" || n == "two_handles_c" {
			wantV := map[string]float64{"two_handles_g": 1, "two_handles_c": 4}[n]
			ms := f.GetMetric()
			got := math.NaN()
			if len(ms) == 1 && ms[0].Gauge != nil {
				got = ms[0].Gauge.GetValue()
			} else if len(ms) == 1 && ms[0].Counter != nil {
				got = ms[0].Counter.GetValue()
			}
			if got != wantV {
				c.Violation("prometheus-value/two-handles", map[string]interface{}{"why": fmt.Sprintf("%s: one series reported through two handles (1 through the first, 2 through the second, 1 through the first again) shows %v in %d series, want %v in one", n, got, len(ms), wantV), "case": desc})
			}
			c.Event("two-handle-series-checked", 1)
		}
	}
	for name := range want {
		c.Violation("prometheus-series-merged", map[string]interface{}{"why": "family " + name + " is missing from Gather()", "registration_errors": regErrs, "case": desc})
	}
}
