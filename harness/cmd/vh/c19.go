package main

import (
	"fmt"
	"math"
	"runtime"
	"sort"
	"sync"
	"time"

	tally "github.com/uber-go/tally/v4"
	"github.com/uber-go/tally/v4/m3"
	"github.com/uber-go/tally/v4/multi"

	"verifharness/mon"
)

func init() { register("C19", runC19) }

func runC19(c *mon.Ctx) {
	c.Cases(func(i int, r *mon.Rand) {
		c19Plain(c, r.Fork(1))
		c19Cached(c, r.Fork(2))
		c19OddChildren(c, r.Fork(4))
		if i%4 == 0 || c.Race {
			c19Concurrent(c, r.Fork(3))
		}
	})
}

// c19ZeroChild is a stateless, value-typed reporter (its zero value is the
// whole reporter, like tally.NullStatsReporter): it logs into a package-level
// recorder that the case resets.
type c19ZeroChild struct{}

var c19ZeroRec = mon.NewPlainRec(true)

func (c19ZeroChild) ReportCounter(n string, t map[string]string, v int64) {
	c19ZeroRec.ReportCounter(n, t, v)
}
func (c19ZeroChild) ReportGauge(n string, t map[string]string, v float64) {
	c19ZeroRec.ReportGauge(n, t, v)
}
func (c19ZeroChild) ReportTimer(n string, t map[string]string, v time.Duration) {
	c19ZeroRec.ReportTimer(n, t, v)
}
func (c19ZeroChild) ReportHistogramValueSamples(n string, t map[string]string, b tally.Buckets, lo, hi float64, s int64) {
	c19ZeroRec.ReportHistogramValueSamples(n, t, b, lo, hi, s)
}
func (c19ZeroChild) ReportHistogramDurationSamples(n string, t map[string]string, b tally.Buckets, lo, hi time.Duration, s int64) {
	c19ZeroRec.ReportHistogramDurationSamples(n, t, b, lo, hi, s)
}
func (c19ZeroChild) Capabilities() tally.Capabilities { return c19ZeroRec.Capabilities() }
func (c19ZeroChild) Flush()                           { c19ZeroRec.Flush() }

func evSig(e mon.Event) string {
	return fmt.Sprintf("%s name=%q tags=%s I=%d F=%#x lo=%v hi=%v loD=%d hiD=%d spec=%T%v", e.Kind, e.Name, mon.IdentKey("", e.Tags), e.I, e.F, e.Lo, e.Hi, e.LoD, e.HiD, e.Spec, e.Spec)
}

// c19After checks that the call just made produced exactly one new event on
// every child, equal to want, children visited in construction order.
func c19After(c *mon.Ctx, recs []*mon.Recorder, before []int, want string, call string, desc func() interface{}) {
	lastSeq := int64(-1)
	for i, rec := range recs {
		log, _, _ := rec.Snapshot()
		nw := log[before[i]:]
		before[i] = len(log)
		if len(nw) != 1 {
			c.Violation("multi-not-exactly-once", map[string]interface{}{"why": fmt.Sprintf("%s: child %d of %d received %d calls", call, i, len(recs), len(nw)), "case": desc()})
			continue
		}
		c.Event("child-calls-checked", 1)
		if got := evSig(nw[0]); got != want {
			c.Violation("multi-call-differs", map[string]interface{}{"why": fmt.Sprintf("%s: child %d received %s, want %s", call, i, got, want), "case": desc()})
		}
		if nw[0].Seq <= lastSeq {
			c.Violation("multi-order", map[string]interface{}{"why": fmt.Sprintf("%s: child %d was called before child %d", call, i, i-1), "case": desc()})
		}
		lastSeq = nw[0].Seq
	}
}

func c19Caps(r *mon.Rand, recs []*mon.Recorder) (rep, tag bool) {
	rep, tag = true, true
	for _, rec := range recs {
		a, b := !r.Chance(1, 4), !r.Chance(1, 4)
		rec.Caps = mon.Caps(a, b)
		rep = rep && a
		tag = tag && b
	}
	return
}

func c19Plain(c *mon.Ctx, r *mon.Rand) {
	n := r.Intn(6)
	recs := make([]*mon.Recorder, n)
	children := make([]tally.StatsReporter, n)
	for i := range recs {
		p := mon.NewPlainRec(true)
		recs[i] = p.Recorder
		children[i] = p
	}
	// a quarter of the cases: one more child that is a zero-valued struct (not a
	// pointer) - a child like any other
	zeroChild := r.Chance(1, 4)
	if zeroChild {
		c19ZeroRec = mon.NewPlainRec(true)
		at := r.Intn(n + 1)
		recs = append(recs[:at], append([]*mon.Recorder{c19ZeroRec.Recorder}, recs[at:]...)...)
		children = append(children[:at], append([]tally.StatsReporter{c19ZeroChild{}}, children[at:]...)...)
		n++
	}
	wantRep, wantTag := c19Caps(r, recs)
	nullChild := r.Chance(1, 6) // and/or the library's own NullStatsReporter (no capabilities)
	if nullChild {
		children = append(children, tally.NullStatsReporter)
		wantRep, wantTag = false, false
	}
	var ops []string
	desc := func() interface{} {
		return map[string]interface{}{"flavour": "plain", "children": n, "zero_valued_struct_child": zeroChild, "null_reporter_child": nullChild, "ops": ops}
	}
	c.Eval(1)
	c.Distinct(mon.Hash64("plain", fmt.Sprint(n, r.U64())))
	c.Class(fmt.Sprintf("plain-children-%d", n), 1)
	// a third of the histories with two or more children put a run of them into
	// a multi reporter of their own (fan-outs nest); the leaves keep their order
	if len(children) >= 2 && r.Chance(1, 3) {
		a := r.Intn(len(children) - 1)
		b := a + 2 + r.Intn(len(children)-a-1)
		inner := multi.NewMultiReporter(append([]tally.StatsReporter(nil), children[a:b]...)...)
		children = append(append(append([]tally.StatsReporter(nil), children[:a]...), inner), children[b:]...)
		c.Class("histories-with-a-nested-multi-reporter", 1)
	}
	// half of the histories: the caller re-uses the slice it passed to the
	// constructor for something else
	decoy := mon.NewPlainRec(true)
	scribble := r.Bool()
	c.Guard("panic-multi", desc, func() {
		m := multi.NewMultiReporter(children...)
		if scribble {
			for i := range children {
				children[i] = decoy
			}
		}
		defer func() {
			if dl, _, _ := decoy.Snapshot(); len(dl) > 0 {
				c.Violation("multi-call-to-a-reporter-that-is-not-a-child", map[string]interface{}{"why": fmt.Sprintf("the caller overwrote the slice it had passed to NewMultiReporter with another reporter, which then received %d calls (first: %s)", len(dl), evSig(dl[0])), "case": desc()})
			}
		}()
		if cp := m.Capabilities(); cp.Reporting() != wantRep || cp.Tagging() != wantTag {
			c.Violation("multi-capabilities", map[string]interface{}{"why": fmt.Sprintf("capabilities %v/%v, conjunction of children is %v/%v", cp.Reporting(), cp.Tagging(), wantRep, wantTag), "case": desc()})
		}
		before := make([]int, n)
		pool := newStrPool(r, true, true, true)
		nops := r.Range(1, 60)
		for k := 0; k < nops; k++ {
			name := pool.names[r.Intn(len(pool.names))]
			tags := pool.tagMap(r, 3)
			if r.Chance(1, 6) {
				tags = nil
			}
			switch r.Intn(6) {
			case 0:
				v := r.AnyInt64()
				call := fmt.Sprintf("ReportCounter(%q,%v,%d)", name, tags, v)
				ops = append(ops, call)
				m.ReportCounter(name, tags, v)
				c19After(c, recs, before, evSig(mon.Event{Kind: mon.EvCounter, Name: name, Tags: tags, I: v}), call, desc)
			case 1:
				v := r.AnyFloat()
				call := fmt.Sprintf("ReportGauge(%q,%v,%v)", name, tags, v)
				ops = append(ops, call)
				m.ReportGauge(name, tags, v)
				c19After(c, recs, before, evSig(mon.Event{Kind: mon.EvGauge, Name: name, Tags: tags, F: f64bits(v)}), call, desc)
			case 2:
				v := r.AnyDuration()
				call := fmt.Sprintf("ReportTimer(%q,%v,%d)", name, tags, v)
				ops = append(ops, call)
				m.ReportTimer(name, tags, v)
				c19After(c, recs, before, evSig(mon.Event{Kind: mon.EvTimer, Name: name, Tags: tags, I: int64(v)}), call, desc)
			case 3:
				spec := tally.ValueBuckets(r.ValueSpec(4))
				lo, hi, s := r.FiniteFloat(), r.FiniteFloat(), r.AnyInt64()
				call := fmt.Sprintf("ReportHistogramValueSamples(%q,%v,%v,%v,%v,%d)", name, tags, spec, lo, hi, s)
				ops = append(ops, call)
				m.ReportHistogramValueSamples(name, tags, spec, lo, hi, s)
				c19After(c, recs, before, evSig(mon.Event{Kind: mon.EvHistV, Name: name, Tags: tags, I: s, Lo: lo, Hi: hi, Spec: spec}), call, desc)
			case 4:
				spec := tally.DurationBuckets(r.DurationSpec(4))
				lo, hi, s := r.AnyDuration(), r.AnyDuration(), r.AnyInt64()
				call := fmt.Sprintf("ReportHistogramDurationSamples(%q,%v,%v,%d,%d,%d)", name, tags, spec, lo, hi, s)
				ops = append(ops, call)
				m.ReportHistogramDurationSamples(name, tags, spec, lo, hi, s)
				c19After(c, recs, before, evSig(mon.Event{Kind: mon.EvHistD, Name: name, Tags: tags, I: s, LoD: lo, HiD: hi, Spec: spec}), call, desc)
			default:
				ops = append(ops, "Flush()")
				m.Flush()
				c19After(c, recs, before, evSig(mon.Event{Kind: mon.EvFlush}), "Flush()", desc)
			}
		}
	})
	if c.WantSample() {
		c.Sample(desc())
	}
}

func f64bits(f float64) uint64 { return mathFloat64bits(f) }

type c19Handle struct {
	kind  string
	name  string
	tags  map[string]string
	cnt   tally.CachedCount
	g     tally.CachedGauge
	t     tally.CachedTimer
	h     tally.CachedHistogram
	bv    tally.CachedHistogramBucket
	bd    tally.CachedHistogramBucket
	lo    float64
	hi    float64
	loD   time.Duration
	hiD   time.Duration
	spec  tally.Buckets
	descr string
}

func c19Cached(c *mon.Ctx, r *mon.Rand) {
	n := r.Intn(6)
	recs := make([]*mon.Recorder, n)
	children := make([]tally.CachedStatsReporter, n)
	for i := range recs {
		p := mon.NewCachedRec(true)
		recs[i] = p.Recorder
		children[i] = p
	}
	wantRep, wantTag := c19Caps(r, recs)
	var ops []string
	var m3first bool
	desc := func() interface{} {
		return map[string]interface{}{"flavour": "cached", "children": n, "m3_child_first": m3first, "ops": ops}
	}
	c.Eval(1)
	c.Distinct(mon.Hash64("cached", fmt.Sprint(n, r.U64())))
	c.Class(fmt.Sprintf("cached-children-%d", n), 1)
	// every fourth history the first child is a real M3 reporter (the usual
	// production pairing: M3 next to something else); the recording children
	// behind it must still see every call with identical arguments
	var m3child m3.Reporter
	_ = m3child
	if n > 0 && r.Chance(1, 4) {
		if rep, err := m3.NewReporter(m3.Options{HostPorts: []string{mon.DeadPort()}, Service: "svc", Env: "test"}); err == nil {
			m3child, m3first = rep, true
			children = append([]tally.CachedStatsReporter{rep}, children...)
			c.Class("cached-histories-with-an-m3-child-first", 1)
			defer rep.Close()
		}
	}
	if len(children) >= 2 && r.Chance(1, 3) {
		a := r.Intn(len(children) - 1)
		b := a + 2 + r.Intn(len(children)-a-1)
		inner := multi.NewMultiCachedReporter(append([]tally.CachedStatsReporter(nil), children[a:b]...)...)
		children = append(append(append([]tally.CachedStatsReporter(nil), children[:a]...), inner), children[b:]...)
		c.Class("histories-with-a-nested-multi-reporter", 1)
	}
	decoy := mon.NewCachedRec(true)
	scribble := r.Bool()
	c.Guard("panic-multi", desc, func() {
		m := multi.NewMultiCachedReporter(children...)
		if scribble {
			for i := range children {
				children[i] = decoy
			}
		}
		defer func() {
			if dl, _, _ := decoy.Snapshot(); len(dl) > 0 {
				c.Violation("multi-call-to-a-reporter-that-is-not-a-child", map[string]interface{}{"why": fmt.Sprintf("the caller overwrote the slice it had passed to NewMultiCachedReporter with another reporter, which then received %d calls (first: %s)", len(dl), evSig(dl[0])), "case": desc()})
			}
		}()
		if cp := m.Capabilities(); cp.Reporting() != wantRep || cp.Tagging() != wantTag {
			c.Violation("multi-capabilities", map[string]interface{}{"why": fmt.Sprintf("capabilities %v/%v, conjunction of children is %v/%v", cp.Reporting(), cp.Tagging(), wantRep, wantTag), "case": desc()})
		}
		before := make([]int, n)
		pool := newStrPool(r, true, true, true)
		var hs []*c19Handle
		nops := r.Range(1, 80)
		for k := 0; k < nops; k++ {
			if len(hs) == 0 || r.Chance(1, 4) {
				name := pool.names[r.Intn(len(pool.names))]
				tags := pool.tagMap(r, 3)
				given := mon.CopyTags(tags) // the map handed to the reporter; expectations use the pristine one
				h := &c19Handle{name: name, tags: tags}
				switch r.Intn(4) {
				case 0:
					h.kind = "counter"
					call := fmt.Sprintf("AllocateCounter(%q,%v)", name, tags)
					ops = append(ops, call)
					h.cnt = m.AllocateCounter(name, given)
					c19After(c, recs, before, evSig(mon.Event{Kind: mon.EvAllocCounter, Name: name, Tags: tags}), call, desc)
				case 1:
					h.kind = "gauge"
					call := fmt.Sprintf("AllocateGauge(%q,%v)", name, tags)
					ops = append(ops, call)
					h.g = m.AllocateGauge(name, given)
					c19After(c, recs, before, evSig(mon.Event{Kind: mon.EvAllocGauge, Name: name, Tags: tags}), call, desc)
				case 2:
					h.kind = "timer"
					call := fmt.Sprintf("AllocateTimer(%q,%v)", name, tags)
					ops = append(ops, call)
					h.t = m.AllocateTimer(name, given)
					c19After(c, recs, before, evSig(mon.Event{Kind: mon.EvAllocTimer, Name: name, Tags: tags}), call, desc)
				default:
					h.kind = "histogram"
					if r.Bool() {
						h.spec = tally.ValueBuckets(r.ValueSpec(4))
					} else {
						h.spec = tally.DurationBuckets(r.DurationSpec(4))
					}
					if r.Chance(1, 6) {
						// a caller-defined implementation of the exported Buckets interface:
						// the children are handed the very object (type and all)
						h.spec = c19UnitBuckets{tally.DurationBuckets(r.DurationSpec(4)), "ms"}
					} else if r.Chance(1, 6) {
						// a specification without bounds: a histogram like any other
						if r.Bool() {
							h.spec = tally.ValueBuckets{}
						} else {
							h.spec = tally.DurationBuckets{}
						}
					}
					call := fmt.Sprintf("AllocateHistogram(%q,%v,%v)", name, tags, h.spec)
					ops = append(ops, call)
					h.h = m.AllocateHistogram(name, given, h.spec)
					c19After(c, recs, before, evSig(mon.Event{Kind: mon.EvAllocHist, Name: name, Tags: tags, Spec: h.spec}), call, desc)
				}
				hs = append(hs, h)
				continue
			}
			h := hs[r.Intn(len(hs))]
			switch h.kind {
			case "counter":
				v := r.AnyInt64()
				call := fmt.Sprintf("counter(%q).ReportCount(%d)", h.name, v)
				ops = append(ops, call)
				h.cnt.ReportCount(v)
				c19After(c, recs, before, evSig(mon.Event{Kind: mon.EvCounter, Name: h.name, Tags: h.tags, I: v}), call, desc)
			case "gauge":
				v := r.AnyFloat()
				call := fmt.Sprintf("gauge(%q).ReportGauge(%v)", h.name, v)
				ops = append(ops, call)
				h.g.ReportGauge(v)
				c19After(c, recs, before, evSig(mon.Event{Kind: mon.EvGauge, Name: h.name, Tags: h.tags, F: mathFloat64bits(v)}), call, desc)
			case "timer":
				v := r.AnyDuration()
				call := fmt.Sprintf("timer(%q).ReportTimer(%d)", h.name, v)
				ops = append(ops, call)
				h.t.ReportTimer(v)
				c19After(c, recs, before, evSig(mon.Event{Kind: mon.EvTimer, Name: h.name, Tags: h.tags, I: int64(v)}), call, desc)
			case "histogram":
				switch r.Intn(4) {
				case 0:
					lo, hi := r.FiniteFloat(), r.FiniteFloat()
					if r.Bool() {
						// a small pool of bounds, shared with the duration buckets (in seconds),
						// so that lookups repeat and the two kinds meet on one handle
						lo, hi = []float64{0, 0.5, 1, 2}[r.Intn(4)], []float64{1, 2, 3}[r.Intn(3)]
					}
					call := fmt.Sprintf("histogram(%q).ValueBucket(%v,%v)", h.name, lo, hi)
					ops = append(ops, call)
					b := h.h.ValueBucket(lo, hi)
					c19After(c, recs, before, evSig(mon.Event{Kind: mon.EvBucketV, Name: h.name, Tags: h.tags, Lo: lo, Hi: hi}), call, desc)
					hs = append(hs, &c19Handle{kind: "bucketv", name: h.name, tags: h.tags, bv: b, lo: lo, hi: hi})
				case 1:
					lo, hi := r.AnyDuration(), r.AnyDuration()
					if r.Bool() {
						lo, hi = []time.Duration{0, 500 * time.Millisecond, time.Second, 2 * time.Second}[r.Intn(4)], []time.Duration{time.Second, 2 * time.Second, 3 * time.Second}[r.Intn(3)]
					}
					call := fmt.Sprintf("histogram(%q).DurationBucket(%d,%d)", h.name, lo, hi)
					ops = append(ops, call)
					b := h.h.DurationBucket(lo, hi)
					c19After(c, recs, before, evSig(mon.Event{Kind: mon.EvBucketD, Name: h.name, Tags: h.tags, LoD: lo, HiD: hi}), call, desc)
					hs = append(hs, &c19Handle{kind: "bucketd", name: h.name, tags: h.tags, bd: b, loD: lo, hiD: hi})
				default:
					ops = append(ops, "Flush()")
					m.Flush()
					c19After(c, recs, before, evSig(mon.Event{Kind: mon.EvFlush}), "Flush()", desc)
				}
			case "bucketv":
				v := r.AnyInt64()
				call := fmt.Sprintf("bucket(%q,%v,%v).ReportSamples(%d)", h.name, h.lo, h.hi, v)
				ops = append(ops, call)
				h.bv.ReportSamples(v)
				c19After(c, recs, before, evSig(mon.Event{Kind: mon.EvHistV, Name: h.name, Tags: h.tags, I: v, Lo: h.lo, Hi: h.hi}), call, desc)
				c.Event("bucket-reports", 1)
			case "bucketd":
				v := r.AnyInt64()
				call := fmt.Sprintf("bucket(%q,%d,%d).ReportSamples(%d)", h.name, h.loD, h.hiD, v)
				ops = append(ops, call)
				h.bd.ReportSamples(v)
				c19After(c, recs, before, evSig(mon.Event{Kind: mon.EvHistD, Name: h.name, Tags: h.tags, I: v, LoD: h.loD, HiD: h.hiD}), call, desc)
				c.Event("bucket-reports", 1)
			}
		}
	})
	if c.WantSample() {
		c.Sample(desc())
	}
}

func mathFloat64bits(f float64) uint64 { return math.Float64bits(f) }

// c19Concurrent: several goroutines use one multi reporter at the same time
// (report loop, synchronous timers, explicit Flush callers). Children are slow
// in a PRNG-determined way so that calls overlap. Every child must have
// received exactly the multiset of calls made on the multi reporter - Flush
// calls included, each one forwarded.
func c19Concurrent(c *mon.Ctx, r *mon.Rand) {
	n := r.Range(1, 4)
	cached := r.Bool()
	recs := make([]*mon.Recorder, n)
	plainKids := make([]tally.StatsReporter, n)
	cachedKids := make([]tally.CachedStatsReporter, n)
	dseed := r.U64()
	for i := range recs {
		var rec *mon.Recorder
		if cached {
			p := mon.NewCachedRec(true)
			rec, cachedKids[i] = p.Recorder, p
		} else {
			p := mon.NewPlainRec(true)
			rec, plainKids[i] = p.Recorder, p
		}
		i := i
		var cnt uint64
		var cmu sync.Mutex
		rec.Delay = func(k mon.EvKind) {
			cmu.Lock()
			cnt++
			z := mon.Hash64(fmt.Sprint(dseed, i, cnt))
			cmu.Unlock()
			if k == mon.EvFlush || z%4 == 0 {
				time.Sleep(time.Duration(z%200) * time.Microsecond)
			}
		}
		recs[i] = rec
	}
	// the children's answers about their capabilities take a moment (they yield
	// the processor), and only the last child lacks a capability: every answer
	// of the multi reporter, fresh or kept from an earlier call, says the
	// conjunction - also while other goroutines are asking
	wantRep, wantTag := r.Bool(), r.Bool()
	for i, rec := range recs {
		if i == len(recs)-1 {
			rec.Caps = c19SlowCaps{wantRep, wantTag}
		} else {
			rec.Caps = c19SlowCaps{true, true}
		}
	}
	G := r.Range(2, 6)
	per := r.Range(5, 40)
	desc := map[string]interface{}{"flavour": map[bool]string{true: "cached", false: "plain"}[cached], "children": n, "goroutines": G, "calls_per_goroutine": per, "last_child_capabilities": fmt.Sprint(wantRep, "/", wantTag)}
	c.Eval(1)
	stop := c.Watchdog(300*time.Second, "no-progress", desc)
	defer stop()
	var wantMu sync.Mutex
	var want []string
	add := func(e mon.Event) {
		wantMu.Lock()
		want = append(want, evSig(e))
		wantMu.Unlock()
	}
	var wg, start sync.WaitGroup
	start.Add(1)
	var panics sync.Map
	var mp tally.StatsReporter
	var mc tally.CachedStatsReporter
	if cached {
		mc = multi.NewMultiCachedReporter(cachedKids...)
	} else {
		mp = multi.NewMultiReporter(plainKids...)
	}
	for g := 0; g < G; g++ {
		g := g
		gr := r.Fork(uint64(50 + g))
		wg.Add(1)
		go func() {
			defer wg.Done()
			defer func() {
				if p := recover(); p != nil {
					panics.Store(g, fmt.Sprint(p))
				}
			}()
			name := fmt.Sprintf("m%d", g)
			tags := map[string]string{"g": fmt.Sprint(g)}
			var cc tally.CachedCount
			var cg tally.CachedGauge
			var ct tally.CachedTimer
			if cached {
				cc, cg, ct = mc.AllocateCounter(name, tags), mc.AllocateGauge(name, tags), mc.AllocateTimer(name, tags)
				add(mon.Event{Kind: mon.EvAllocCounter, Name: name, Tags: tags})
				add(mon.Event{Kind: mon.EvAllocGauge, Name: name, Tags: tags})
				add(mon.Event{Kind: mon.EvAllocTimer, Name: name, Tags: tags})
			}
			start.Wait()
			var kept tally.Capabilities
			for i := 0; i < per; i++ {
				v := int64(g)<<32 | int64(i)
				{
					var cp tally.Capabilities
					if cached {
						cp = mc.Capabilities()
					} else {
						cp = mp.Capabilities()
					}
					for _, x := range []tally.Capabilities{cp, kept} {
						if x == nil {
							continue
						}
						if a, b := x.Reporting(), x.Tagging(); a != wantRep || b != wantTag {
							panics.Store(g+1000, fmt.Sprintf("capabilities answered %v/%v while other goroutines were asking too, the conjunction of the children is %v/%v", a, b, wantRep, wantTag))
						}
					}
					kept = cp
				}
				switch gr.Intn(4) {
				case 0:
					if cached {
						cc.ReportCount(v)
					} else {
						mp.ReportCounter(name, tags, v)
					}
					add(mon.Event{Kind: mon.EvCounter, Name: name, Tags: tags, I: v})
				case 1:
					if cached {
						cg.ReportGauge(float64(v))
					} else {
						mp.ReportGauge(name, tags, float64(v))
					}
					add(mon.Event{Kind: mon.EvGauge, Name: name, Tags: tags, F: f64bits(float64(v))})
				case 2:
					if cached {
						ct.ReportTimer(time.Duration(v))
					} else {
						mp.ReportTimer(name, tags, time.Duration(v))
					}
					add(mon.Event{Kind: mon.EvTimer, Name: name, Tags: tags, I: v})
				default:
					if cached {
						mc.Flush()
					} else {
						mp.Flush()
					}
					add(mon.Event{Kind: mon.EvFlush})
				}
			}
		}()
	}
	start.Done()
	wg.Wait()
	panics.Range(func(k, v interface{}) bool {
		if g, _ := k.(int); g >= 1000 {
			c.Violation("multi-capabilities-concurrent", map[string]interface{}{"why": v, "case": desc})
			return true
		}
		c.Violation("panic-multi-concurrent", map[string]interface{}{"why": v, "case": desc})
		return true
	})
	sort.Strings(want)
	for i, rec := range recs {
		log, _, _ := rec.Snapshot()
		got := make([]string, 0, len(log))
		for _, e := range log {
			got = append(got, evSig(e))
		}
		sort.Strings(got)
		c.Event("concurrent-child-calls-checked", int64(len(got)))
		if len(got) != len(want) {
			nf, wf := 0, 0
			for _, x := range got {
				if x == evSig(mon.Event{Kind: mon.EvFlush}) {
					nf++
				}
			}
			for _, x := range want {
				if x == evSig(mon.Event{Kind: mon.EvFlush}) {
					wf++
				}
			}
			c.Violation("multi-not-exactly-once", map[string]interface{}{"why": fmt.Sprintf("concurrent use: child %d received %d calls (%d flushes), %d were made on the multi reporter (%d flushes)", i, len(got), nf, len(want), wf), "case": desc})
			continue
		}
		for k := range want {
			if got[k] != want[k] {
				c.Violation("multi-call-differs", map[string]interface{}{"why": fmt.Sprintf("concurrent use: child %d received %s, expected %s (sorted position %d)", i, got[k], want[k], k), "case": desc})
				break
			}
		}
	}
	c.Distinct(mon.Hash64("conc", fmt.Sprint(desc), fmt.Sprint(r.U64())))
}

// c19FuncChild and c19SliceChild are children handed over by value whose
// dynamic types cannot be compared or hashed (a func and a slice field).
type c19FuncChild struct {
	*mon.PlainRec
	note func()
}
type c19SliceChild struct {
	*mon.CachedRec
	note []int
}

// c19OddChildren: one child instance given in two slots (it is called once
// per slot, flushes included) next to children that are struct values holding
// a func or a slice. Slots: a, u1, b, a, u2.
func c19OddChildren(c *mon.Ctx, r *mon.Rand) {
	cachedFlavour := r.Bool()
	var ops []string
	desc := func() interface{} {
		return map[string]interface{}{"flavour": map[bool]string{false: "plain", true: "cached"}[cachedFlavour], "slots": "a, u1 (struct value with a func/slice field), b, a again, u2 (another such value)", "ops": ops}
	}
	var recs []*mon.Recorder // per slot
	var callP tally.StatsReporter
	var callC tally.CachedStatsReporter
	c.Guard("panic-multi", desc, func() {
		if cachedFlavour {
			a, b := mon.NewCachedRec(true), mon.NewCachedRec(true)
			u1, u2 := c19SliceChild{mon.NewCachedRec(true), []int{1}}, c19SliceChild{mon.NewCachedRec(true), nil}
			recs = []*mon.Recorder{a.Recorder, u1.Recorder, b.Recorder, a.Recorder, u2.Recorder}
			callC = multi.NewMultiCachedReporter(a, u1, b, a, u2)
		} else {
			a, b := mon.NewPlainRec(true), mon.NewPlainRec(true)
			u1, u2 := c19FuncChild{mon.NewPlainRec(true), func() {}}, c19FuncChild{mon.NewPlainRec(true), nil}
			recs = []*mon.Recorder{a.Recorder, u1.Recorder, b.Recorder, a.Recorder, u2.Recorder}
			callP = multi.NewMultiReporter(a, u1, b, a, u2)
		}
		seen := map[*mon.Recorder]int{}
		// after one call on the multi reporter: slot order a, u1, b, a, u2
		check := func(call string, kind mon.EvKind) {
			var seqs []int64
			taken := map[*mon.Recorder]int{}
			for slot, rec := range recs {
				log, _, _ := rec.Snapshot()
				var nw []mon.Event
				for _, e := range log[seen[rec]:] {
					if e.Kind == kind {
						nw = append(nw, e)
					}
				}
				want := 1
				if slot == 0 || slot == 3 {
					want = 2
				}
				if len(nw) != want {
					c.Violation("multi-not-exactly-once", map[string]interface{}{"why": fmt.Sprintf("%s: the child in slot %d received %d %s calls, it occupies %d slot(s)", call, slot, len(nw), kind, want), "case": desc()})
					return
				}
				seqs = append(seqs, nw[taken[rec]].Seq)
				taken[rec]++
			}
			for i := 1; i < len(seqs); i++ {
				if seqs[i] <= seqs[i-1] {
					c.Violation("multi-order", map[string]interface{}{"why": fmt.Sprintf("%s: slot %d was called before slot %d", call, i, i-1), "case": desc()})
				}
			}
			for _, rec := range recs {
				seen[rec] = rec.LogLen()
			}
			c.Event("child-calls-checked", int64(len(recs)))
		}
		var cnt tally.CachedCount
		var bkt tally.CachedHistogramBucket
		if cachedFlavour {
			cnt = callC.AllocateCounter("c", map[string]string{"k": "v"})
			ops = append(ops, "AllocateCounter")
			check("AllocateCounter", mon.EvAllocCounter)
			h := callC.AllocateHistogram("h", nil, tally.ValueBuckets{1, 2})
			ops = append(ops, "AllocateHistogram")
			check("AllocateHistogram", mon.EvAllocHist)
			bkt = h.ValueBucket(1, 2)
			for _, rec := range recs {
				seen[rec] = rec.LogLen()
			}
		}
		for k, n := 0, r.Range(2, 12); k < n; k++ {
			switch r.Intn(3) {
			case 0:
				ops = append(ops, "Flush()")
				if cachedFlavour {
					callC.Flush()
				} else {
					callP.Flush()
				}
				check("Flush()", mon.EvFlush)
			case 1:
				if cachedFlavour {
					ops = append(ops, "counter handle ReportCount(3)")
					cnt.ReportCount(3)
				} else {
					ops = append(ops, "ReportCounter(c,nil,3)")
					callP.ReportCounter("c", nil, 3)
				}
				check("counter report", mon.EvCounter)
			default:
				if cachedFlavour {
					ops = append(ops, "bucket handle ReportSamples(2)")
					bkt.ReportSamples(2)
				} else {
					ops = append(ops, "ReportHistogramValueSamples(h,nil,{1,2},1,2,2)")
					callP.ReportHistogramValueSamples("h", nil, tally.ValueBuckets{1, 2}, 1, 2, 2)
				}
				check("histogram samples report", mon.EvHistV)
			}
		}
	})
	c.Class("histories-with-a-repeated-child-and-unhashable-children", 1)
}

// c19SlowCaps is a capabilities answer that takes a moment to read.
type c19SlowCaps struct{ rep, tag bool }

func (x c19SlowCaps) Reporting() bool { runtime.Gosched(); return x.rep }
func (x c19SlowCaps) Tagging() bool   { runtime.Gosched(); return x.tag }

// c19UnitBuckets is a caller-defined tally.Buckets (a duration list that
// carries a display unit).
type c19UnitBuckets struct {
	tally.DurationBuckets
	unit string
}
