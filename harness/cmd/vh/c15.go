package main

import (
	"bytes"
	"fmt"
	"net"
	"strings"
	"sync"
	"sync/atomic"
	"time"

	tally "github.com/uber-go/tally/v4"
	"github.com/uber-go/tally/v4/m3"
	"github.com/uber-go/tally/v4/m3/thriftudp"
	"github.com/uber-go/tally/v4/thirdparty/github.com/apache/thrift/lib/go/thrift"

	"verifharness/mon"
)

// c15MaxLength is the maximum message length the property states (65,000
// bytes); the library's own constant is deliberately not used here.
const c15MaxLength = 65000

func init() { register("C15", runC15) }

const (
	opSmall    = iota
	opFill     // write up to exactly MaxLength
	opOnePast  // write one byte more than fits
	opByte     // WriteByte
	opString   // WriteString(small)
	opFlush    //
	opAbandon  // the writer gives up on the current message (after an error) and starts the next one
	opClose    //
	opSockFail // close the socket behind the transport's back: every later send fails
	numOps
)

var opNames = []string{"Write(small)", "Write(fill-to-65000)", "Write(one-past)", "WriteByte", "WriteString", "Flush", "Abandon", "Close", "SocketFault"}

func runC15(c *mon.Ctx) {
	switch flagMode {
	case "enum":
		c15Enum(c)
	case "reporter":
		c.Cases(func(i int, r *mon.Rand) { c15Reporter(c, r) })
	case "duplex":
		c.Cases(func(i int, r *mon.Rand) {
			c15Duplex(c, r)
			c15TwoWriters(c, r.Fork(3))
		})
	default:
		c.Cases(func(i int, r *mon.Rand) {
			c15Random(c, r.Fork(1))
			if i%10 == 0 {
				c15Multi(c, r.Fork(2))
			}
		})
	}
}

// c15Enum enumerates every operation sequence up to the batch's length; the
// sequences are dealt round-robin to the batches.
func c15Enum(c *mon.Ctx) {
	maxLen := c.N
	total, idx := 0, 0
	var seq []int
	var rec func(depth int)
	rec = func(depth int) {
		if len(seq) > 0 {
			if idx%c.NBatch == c.Batch {
				c15Sequence(c, append([]int(nil), seq...), nil, true)
				total++
			}
			idx++
		}
		if depth == maxLen {
			return
		}
		for op := 0; op < numOps; op++ {
			// nothing interesting follows Close except use-after-close probes: cut the tree there at depth+2
			if len(seq) >= 2 && seq[len(seq)-1] == opClose && seq[len(seq)-2] == opClose {
				continue
			}
			seq = append(seq, op)
			rec(depth + 1)
			seq = seq[:len(seq)-1]
		}
	}
	rec(0)
	c.SetExtra("enumerated_all_sequences_up_to_length", maxLen)
	c.SetExtra("exhaustive", 1)
}

func c15Random(c *mon.Ctx, r *mon.Rand) {
	n := r.Range(1, 30)
	seq := make([]int, n)
	for i := range seq {
		switch k := r.Intn(20); {
		case k < 6:
			seq[i] = opSmall
		case k < 8:
			seq[i] = opFill
		case k < 10:
			seq[i] = opOnePast
		case k < 11:
			seq[i] = opByte
		case k < 13:
			seq[i] = opString
		case k < 17:
			seq[i] = opFlush
		case k < 18:
			seq[i] = opAbandon
		case k == 18 && r.Chance(1, 4):
			seq[i] = opClose
		case k == 19 && r.Chance(1, 4):
			seq[i] = opSockFail
		default:
			seq[i] = opFlush
		}
	}
	c15Sequence(c, seq, r, false)
}

// model is the byte-buffer model of the transport.
type udpModel struct {
	buf      []byte
	open     bool
	sockDead bool
	out      [][]byte // datagrams that must arrive
}

func (m *udpModel) write(p []byte) bool {
	if !m.open || len(m.buf)+len(p) > c15MaxLength {
		return false
	}
	m.buf = append(m.buf, p...)
	return true
}

func (m *udpModel) flush() bool {
	if !m.open {
		return false
	}
	d := m.buf
	m.buf = nil
	if m.sockDead {
		return false
	}
	m.out = append(m.out, append([]byte(nil), d...))
	return true
}

func c15Sequence(c *mon.Ctx, seq []int, r *mon.Rand, enumerated bool) {
	// single goroutine, deterministic: what is compared travels over loopback
	// UDP, so a finding must reproduce on replay (mon.Ctx.Replayed)
	if r == nil {
		c.Replayed(mon.NewRand(1), func(*mon.Rand) { c15SequenceOnce(c, seq, nil, enumerated) })
		return
	}
	c.Replayed(r, func(rr *mon.Rand) { c15SequenceOnce(c, seq, rr, enumerated) })
}

func c15SequenceOnce(c *mon.Ctx, seq []int, r *mon.Rand, enumerated bool) {
	wdNames := make([]string, len(seq))
	for i, op := range seq {
		wdNames[i] = opNames[op]
	}
	// every transport call returns: a call that is still running after a
	// minute (they take microseconds) is a violation, not a hung check
	stopW := c.Watchdog(60*time.Second, "transport-call-does-not-return", map[string]interface{}{"sequence": wdNames})
	defer stopW()
	sink, err := mon.NewSink()
	if err != nil {
		c.Inconclusive("sink: " + err.Error())
		return
	}
	defer sink.Close()
	tr, err := thriftudp.NewTUDPClientTransport(sink.Addr(), "")
	if err != nil {
		c.Inconclusive("transport: " + err.Error())
		return
	}
	defer tr.Close()
	names := make([]string, len(seq))
	for i, op := range seq {
		names[i] = opNames[op]
	}
	c.Eval(1)
	c.Distinct(mon.Hash64(fmt.Sprint(seq)))
	desc := map[string]interface{}{"sequence": names}
	spec := &udpModel{open: true}  // the property: an abandoned message contributes nothing
	stale := &udpModel{open: true} // the known finding: its accepted prefix stays buffered
	specOK, staleOK := true, true
	counter := byte(0)
	small := func() []byte {
		n := 1 + int(counter)%7
		if r != nil {
			n = r.Range(1, 12)
		}
		b := make([]byte, n)
		for i := range b {
			counter++
			b[i] = counter
		}
		return b
	}
	var firstDiff string
	errInMsg := false // the current message has had a write refused for size
	step := func(i int, what string, gotErr error, specRes, staleRes bool, notOpenWanted bool) {
		got := gotErr == nil
		if specOK && got != specRes {
			specOK = false
			if firstDiff == "" {
				firstDiff = fmt.Sprintf("step %d %s: returned err=%v, the model says success=%v", i, what, gotErr, specRes)
			}
		}
		if staleOK && got != staleRes {
			staleOK = false
		}
		if notOpenWanted && gotErr != nil {
			if te, ok := gotErr.(thrift.TTransportException); !ok || te.TypeId() != thrift.NOT_OPEN {
				c.Violation("use-after-close-error-kind", map[string]interface{}{"why": fmt.Sprintf("step %d %s after Close returned %T %v, want a NOT_OPEN transport exception", i, what, gotErr, gotErr), "case": desc})
			}
		}
	}
	panicked := c.Guard("panic-transport", func() interface{} { return desc }, func() {
		for i, op := range seq {
			switch op {
			case opSmall, opFill, opOnePast:
				var p []byte
				switch op {
				case opSmall:
					p = small()
				case opFill:
					// fill relative to the real buffer state the writer believes in (spec model)
					p = bytes.Repeat([]byte{0xAB}, c15MaxLength-len(spec.buf))
				case opOnePast:
					p = bytes.Repeat([]byte{0xCD}, c15MaxLength-len(spec.buf)+1)
				}
				// the bytes that reach (or cross) the limit arrive through Write,
				// WriteString or WriteByte, depending on the position in the sequence
				variant := (i + len(seq)) % 3
				if op != opSmall && variant != 0 && len(p) > 16 {
					head := p[:len(p)-8]
					if variant == 2 {
						head = p[:len(p)-1]
					}
					_, err := tr.Write(head)
					sr := spec.write(head)
					if !sr && spec.open {
						errInMsg = true
					}
					step(i, opNames[op]+"/head", err, sr, stale.write(head), !spec.open)
					tail := append([]byte(nil), p[len(head):]...)
					for k := range head {
						head[k] ^= 0x5A // caller reuses its slice
					}
					if variant == 1 {
						_, err = tr.WriteString(string(tail))
					} else {
						err = tr.WriteByte(tail[0])
					}
					sr = spec.write(tail)
					if !sr && spec.open {
						errInMsg = true
					}
					step(i, opNames[op]+[]string{"", "/tail-WriteString", "/tail-WriteByte"}[variant], err, sr, stale.write(tail), !spec.open)
					continue
				}
				n, err := tr.Write(p)
				if err == nil && n != len(p) {
					c.Violation("short-write", map[string]interface{}{"why": fmt.Sprintf("step %d Write of %d bytes returned %d, nil", i, len(p), n), "case": desc})
				}
				sr := spec.write(p)
				if !sr && spec.open {
					errInMsg = true
				}
				step(i, opNames[op], err, sr, stale.write(p), !spec.open)
				// the slice belongs to the caller again once Write has returned: a
				// chunked writer refills its scratch buffer
				for k := range p {
					p[k] ^= 0x5A
				}
			case opByte:
				counter++
				err := tr.WriteByte(counter)
				sr := spec.write([]byte{counter})
				if !sr && spec.open {
					errInMsg = true
				}
				step(i, "WriteByte", err, sr, stale.write([]byte{counter}), !spec.open)
			case opString:
				p := small()
				_, err := tr.WriteString(string(p))
				sr := spec.write(p)
				if !sr && spec.open {
					errInMsg = true
				}
				step(i, "WriteString", err, sr, stale.write(p), !spec.open)
			case opFlush:
				err := tr.Flush()
				step(i, "Flush", err, spec.flush(), stale.flush(), !spec.open)
				errInMsg = false
			case opAbandon:
				// the writer gives up on a message only after an error (as the generated
				// client does); that message must contribute nothing to later datagrams
				if errInMsg {
					spec.buf = nil
					errInMsg = false
				}
			case opClose:
				if err := tr.Close(); err != nil && !spec.sockDead {
					c.Violation("close-error", map[string]interface{}{"why": fmt.Sprintf("step %d Close returned %v", i, err), "case": desc})
				}
				spec.open, stale.open = false, false
			case opSockFail:
				tr.Conn().Close()
				spec.sockDead, stale.sockDead = true, true
			}
		}
		if !spec.open && !spec.sockDead {
			// the sequence closed the transport: a Flush now fails and - like every
			// Flush - leaves the buffer empty. Should Open bring the transport back,
			// the next message goes out complete and alone.
			tr.Flush()
			if err := tr.Open(); err == nil && tr.IsOpen() {
				marker := []byte(fmt.Sprintf("after-reopen-%d", counter))
				if _, err := tr.Write(marker); err == nil && tr.Flush() == nil {
					spec.out = append(spec.out, marker)
					stale.out = append(stale.out, marker)
				}
				c.Class("transports-opened-again-after-close", 1)
			}
		}
	})
	if panicked {
		return
	}
	// compare what arrived with the models
	want := spec.out
	if !sink.WaitFor(len(want), 10*time.Second) {
		if sink.Drops() != 0 {
			c.Inconclusive("kernel dropped datagrams at the sink")
			return
		}
	}
	sink.Settle(300 * time.Microsecond)
	got := sink.Datagrams()
	c.Event("datagrams-compared", int64(len(got)))
	same := func(a [][]byte) bool {
		if len(a) != len(got) {
			return false
		}
		for i := range a {
			if !bytes.Equal(a[i], got[i]) {
				return false
			}
		}
		return true
	}
	if specOK && same(spec.out) {
		c.Class("sequences-matching-the-model", 1)
		return
	}
	if staleOK && same(stale.out) {
		// real behaviour = the model in which an abandoned message's prefix stays buffered
		c.Violation("stale-prefix-after-refused-write", map[string]interface{}{"why": "after a refused write the accepted prefix of the abandoned message stays buffered: the next datagram is stale-prefix||next-message (or the next message is refused because of it)", "sequence": names,
			"datagram_lengths_received": lens(got), "datagram_lengths_model": lens(spec.out)})
		return
	}
	why := firstDiff
	if why == "" {
		why = fmt.Sprintf("datagrams received %v, the model expects %v", lens(got), lens(spec.out))
		for i := range got {
			if i < len(spec.out) && !bytes.Equal(got[i], spec.out[i]) {
				why += fmt.Sprintf("; first differing datagram %d: got %d bytes starting %x, want %d bytes starting %x", i, len(got[i]), head(got[i]), len(spec.out[i]), head(spec.out[i]))
				break
			}
		}
	}
	c.Violation("transport-differs-from-model", map[string]interface{}{"why": why, "case": desc})
}

func lens(d [][]byte) []int {
	out := make([]int, len(d))
	for i := range d {
		out[i] = len(d[i])
	}
	return out
}
func head(b []byte) []byte {
	if len(b) > 12 {
		return b[:12]
	}
	return b
}

// c15Multi: with no failing destination every destination sees the same
// datagram sequence; Close is idempotent; use after Close is a not-open error.
func c15Multi(c *mon.Ctx, r *mon.Rand) {
	if atomic.LoadInt32(&c15MultiFound) >= 3 {
		c.Class("multi-destination-runs-skipped-after-three-findings", 1) // the finding is recorded; further runs would only spend the batch's time waiting on sinks
		return
	}
	c.Replayed(r, func(rr *mon.Rand) { c15MultiOnce(c, rr) })
}

func c15MultiOnce(c *mon.Ctx, r *mon.Rand) {
	stopW := c.Watchdog(60*time.Second, "transport-call-does-not-return", "multi-destination transport run")
	defer stopW()
	n := r.Range(1, 3)
	var sinks []*mon.Sink
	var addrs []string
	for i := 0; i < n; i++ {
		s, err := mon.NewSink()
		if err != nil {
			c.Inconclusive("sink: " + err.Error())
			return
		}
		defer s.Close()
		sinks = append(sinks, s)
		addrs = append(addrs, s.Addr())
	}
	// one third of the runs: one more destination is a dead port (every second
	// send to it fails). The live destinations must still receive every message
	// complete and alone, however much is sent after the first failure.
	// a quarter of the runs list one live destination twice (merged configuration
	// lists do): it is a destination like any other and receives every message
	// once per listing
	copies := make([]int, n)
	for i := range copies {
		copies[i] = 1
	}
	if r.Chance(1, 4) {
		k := r.Intn(n)
		copies[k]++
		addrs = append(addrs, addrs[k])
		c.Class("multi-runs-with-a-destination-listed-twice", 1)
	}
	dead := r.Chance(1, 3)
	if dead {
		at := r.Intn(len(addrs) + 1)
		addrs = append(addrs[:at], append([]string{mon.DeadPort()}, addrs[at:]...)...)
		c.Class("multi-runs-with-one-dead-destination", 1)
	}
	tr, err := thriftudp.NewTMultiUDPClientTransport(addrs, "")
	if err != nil {
		c.Inconclusive("multi transport: " + err.Error())
		return
	}
	c.Eval(1)
	var want [][]byte
	var cur []byte
	desc := map[string]interface{}{"destinations": n, "listings_per_destination": copies, "plus_one_dead_destination": dead}
	c.Guard("panic-multi-transport", func() interface{} { return desc }, func() {
		k := r.Range(1, 20)
		if dead {
			k = r.Range(20, 80)
		}
		for i := 0; i < k; i++ {
			if r.Chance(1, 3) {
				if err := tr.Flush(); err != nil && !dead {
					c.Violation("multi-flush-error", map[string]interface{}{"why": err.Error(), "case": desc})
				}
				want = append(want, cur)
				cur = nil
				continue
			}
			p := []byte(fmt.Sprintf("msg-%d-%d;", i, r.Intn(1000)))
			if (r.Chance(1, 8) || dead && r.Chance(1, 3)) && len(cur) < 30000 {
				p = bytes.Repeat([]byte{byte(i)}, r.Range(1000, 30000))
			}
			if _, err := tr.Write(p); err != nil {
				c.Violation("multi-write-error", map[string]interface{}{"why": err.Error(), "case": desc})
			}
			cur = append(cur, p...)
		}
		if err := tr.Close(); err != nil {
			c.Violation("close-error", map[string]interface{}{"why": err.Error(), "case": desc})
		}
		if err := tr.Close(); err != nil {
			c.Violation("close-not-idempotent", map[string]interface{}{"why": err.Error(), "case": desc})
		}
		if tr.IsOpen() {
			c.Violation("open-after-close", map[string]interface{}{"case": desc})
		}
		if err := tr.Flush(); err == nil {
			c.Violation("use-after-close-accepted", map[string]interface{}{"why": "Flush after Close (nothing written since) returned nil", "case": desc})
		}
		if _, err := tr.Write([]byte("x")); err == nil {
			c.Violation("use-after-close-accepted", map[string]interface{}{"why": "Write after Close returned nil", "case": desc})
		}
		if err := tr.Flush(); err == nil {
			c.Violation("use-after-close-accepted", map[string]interface{}{"why": "Flush after Close returned nil", "case": desc})
		}
	})
	for i, s := range sinks {
		wantHere := want
		if copies[i] > 1 {
			wantHere = nil
			for _, m := range want {
				for k := 0; k < copies[i]; k++ {
					wantHere = append(wantHere, m)
				}
			}
		}
		want := wantHere
		if !s.WaitFor(len(want), c15SinkPatience()) {
			atomic.AddInt32(&c15Stalls, 1)
			if s.Drops() != 0 {
				c.Inconclusive("kernel dropped datagrams at the sink")
				return
			}
		}
		s.Settle(300 * time.Microsecond)
		got := s.Datagrams()
		okSame := len(got) == len(want)
		for j := 0; okSame && j < len(got); j++ {
			okSame = bytes.Equal(got[j], want[j])
		}
		if !okSame {
			atomic.AddInt32(&c15MultiFound, 1)
			c.Violation("multi-destination-differs", map[string]interface{}{"why": fmt.Sprintf("destination %d of %d received datagram lengths %v, written %v", i, n, lens(got), lens(want)), "case": desc})
		}
		c.Event("multi-destination-datagrams-compared", int64(len(got)))
	}
	c.Distinct(mon.Hash64("multi", fmt.Sprint(n, lens(want))))
}

// c15Reporter: reporter-level fault sequences.
func c15Reporter(c *mon.Ctx, r *mon.Rand) {
	stopW := c.Watchdog(120*time.Second, "transport-call-does-not-return", "reporter-level fault sequence")
	defer stopW()
	switch r.Intn(3) {
	case 0:
		c15ReporterDeadPort(c, r)
	case 1:
		c15ReporterOversize(c, r)
	default:
		c15ReporterOneDeadOfTwo(c, r)
	}
}

// two destinations, the first one dead: a failed send to it must not corrupt
// what the live destination receives afterwards.
func c15ReporterOneDeadOfTwo(c *mon.Ctx, r *mon.Rand) {
	proto := m3.Compact
	if r.Bool() {
		proto = m3.Binary
	}
	opts := m3.Options{Service: "s", Env: "e", Protocol: proto, HostPorts: []string{mon.DeadPort()}, MaxQueueSize: 4096}
	env, err := newM3Env(1, opts, nil) // the live sink is appended after the dead port
	if err != nil {
		c.Inconclusive("NewReporter: " + err.Error())
		return
	}
	c.Eval(1)
	desc := map[string]interface{}{"scenario": "two-destinations-first-dead", "protocol": protoName(proto)}
	c.LogCase(fmt.Sprint(desc))
	cnt := env.Rep.AllocateCounter("x", nil)
	n := r.Range(4, 10)
	for i := 0; i < n; i++ {
		cnt.ReportCount(int64(100 + i))
		env.Rep.Flush()
		time.Sleep(400 * time.Microsecond) // let the batch go out and the ICMP error come back
	}
	env.Rep.Close()
	tally.VerifSetHook(nil)
	sink := env.Sinks[0]
	sink.Settle(3 * time.Millisecond)
	seen := map[int64]int{}
	corrupt := 0
	for _, d := range sink.Datagrams() {
		m, derr := decodeDatagram(proto, d)
		if derr != nil || m.Trailing != 0 {
			corrupt++
			continue
		}
		for _, met := range m.Batch.Metrics {
			if met.Name == "x" {
				seen[met.Value.Count]++
			}
		}
	}
	sink.Close()
	dup := 0
	for _, k := range seen {
		if k > 1 {
			dup++
		}
	}
	if corrupt > 0 || dup > 0 {
		c.Violation("multi-destination-corrupt-after-one-destination-failed", map[string]interface{}{"why": fmt.Sprintf("the live destination received %d datagrams that are not exactly one well-formed message (and %d duplicated values) after sends to the other destination failed", corrupt, dup), "case": desc})
	}
	c.Event("reporter-one-dead-of-two-scenarios", 1)
	c.Distinct(mon.Hash64(fmt.Sprint(desc, n)))
}

// waitFlushes waits until the reporter has written n datagrams to the socket.
func waitFlushes(env *m3Env, n int) bool {
	t0 := time.Now()
	for len(env.flushes()) < n {
		if time.Since(t0) > 10*time.Second {
			return false
		}
		time.Sleep(100 * time.Microsecond)
	}
	return true
}

// dead port, then a listener appears: after the faults stop every later
// batch arrives complete and decodes.
func c15ReporterDeadPort(c *mon.Ctx, r *mon.Rand) {
	proto := m3.Compact
	if r.Bool() {
		proto = m3.Binary
	}
	addr := mon.DeadPort()
	opts := m3.Options{Service: "s", Env: "e", Protocol: proto, HostPorts: []string{addr}, MaxQueueSize: []int{1, 16, 4096}[r.Intn(3)]}
	env, err := newM3Env(0, opts, nil)
	if err != nil {
		c.Inconclusive("NewReporter: " + err.Error())
		return
	}
	c.Eval(1)
	desc := map[string]interface{}{"scenario": "dead-port-then-listener", "protocol": protoName(proto), "queue": opts.MaxQueueSize}
	c.LogCase(fmt.Sprint(desc))
	cnt := env.Rep.AllocateCounter("x", map[string]string{"k": "v"})
	nFail := r.Range(2, 5)
	for i := 0; i < nFail; i++ {
		cnt.ReportCount(int64(1000 + i))
		env.Rep.Flush()
		if !waitFlushes(env, i+1) {
			c.Inconclusive("reporter did not write the batch")
			env.Rep.Close()
			tally.VerifSetHook(nil)
			return
		}
		time.Sleep(300 * time.Microsecond) // let the ICMP error come back
	}
	// the listener appears on that very port
	udpAddr, _ := net.ResolveUDPAddr("udp4", addr)
	conn, err := net.ListenUDP("udp4", udpAddr)
	if err != nil {
		c.Inconclusive("port taken: " + err.Error())
		env.Rep.Close()
		tally.VerifSetHook(nil)
		return
	}
	defer conn.Close()
	// one probe batch absorbs a pending send error, if any
	cnt.ReportCount(5000)
	env.Rep.Flush()
	waitFlushes(env, nFail+1)
	time.Sleep(300 * time.Microsecond)
	nOK := r.Range(1, 6)
	for i := 0; i < nOK; i++ {
		cnt.ReportCount(int64(9000 + i))
		if r.Bool() {
			env.Rep.Flush()
		}
	}
	env.Rep.Close()
	tally.VerifSetHook(nil)
	seen := map[int64]int{}
	conn.SetReadDeadline(time.Now().Add(300 * time.Millisecond))
	buf := make([]byte, 70000)
	for {
		n, _, err := conn.ReadFromUDP(buf)
		if err != nil {
			break
		}
		m, derr := decodeDatagram(proto, buf[:n])
		if derr != nil || m.Trailing != 0 {
			c.Violation("reporter-batch-corrupt-after-faults", map[string]interface{}{"why": fmt.Sprintf("a datagram sent after the faults stopped does not decode: %v (trailing %d)", derr, m.Trailing), "case": desc})
			continue
		}
		for _, met := range m.Batch.Metrics {
			if met.Name == "x" {
				seen[met.Value.Count]++
			}
		}
		conn.SetReadDeadline(time.Now().Add(100 * time.Millisecond))
	}
	for i := 0; i < nOK; i++ {
		if seen[int64(9000+i)] != 1 {
			c.Violation("reporter-batch-missing-after-faults", map[string]interface{}{"why": fmt.Sprintf("value %d reported after the destination came back arrived %d times (seen: %v)", 9000+i, seen[int64(9000+i)], seen), "case": desc})
		}
	}
	c.Event("reporter-recovery-scenarios", 1)
	c.Distinct(mon.Hash64(fmt.Sprint(desc, nFail, nOK)))
}

// an oversize batch (only possible when MaxPacketSizeBytes exceeds the
// transport's own limit): later batches must still be emitted.
func c15ReporterOversize(c *mon.Ctx, r *mon.Rand) {
	proto := m3.Compact
	if r.Bool() {
		proto = m3.Binary
	}
	opts := m3.Options{Service: "s", Env: "e", Protocol: proto, MaxPacketSizeBytes: int32(r.Range(66000, 80000)), MaxQueueSize: 4096}
	env, err := newM3Env(1, opts, nil)
	if err != nil {
		c.Inconclusive("NewReporter: " + err.Error())
		return
	}
	c.Eval(1)
	desc := map[string]interface{}{"scenario": "oversize-batch-then-small-batches", "protocol": protoName(proto), "max_packet": opts.MaxPacketSizeBytes}
	c.LogCase(fmt.Sprint(desc))
	big := env.Rep.AllocateCounter(strings.Repeat("n", 500), map[string]string{"k": strings.Repeat("v", 400)})
	for i := 0; i < 90; i++ { // ~ 90 * 930 bytes > 65000, below MaxPacketSizeBytes: one batch
		big.ReportCount(int64(i))
	}
	env.Rep.Flush()
	time.Sleep(2 * time.Millisecond)
	small := env.Rep.AllocateCounter("small", nil)
	nOK := r.Range(1, 5)
	for i := 0; i < nOK; i++ {
		small.ReportCount(int64(7000 + i))
		env.Rep.Flush()
		time.Sleep(500 * time.Microsecond)
	}
	env.Rep.Close()
	tally.VerifSetHook(nil)
	sink := env.Sinks[0]
	sink.Settle(5 * time.Millisecond)
	seen := map[int64]int{}
	corrupt := 0
	for _, d := range sink.Datagrams() {
		m, derr := decodeDatagram(proto, d)
		if derr != nil || m.Trailing != 0 {
			corrupt++
			continue
		}
		for _, met := range m.Batch.Metrics {
			if met.Name == "small" {
				seen[met.Value.Count]++
			}
		}
	}
	sink.Close()
	missing := 0
	for i := 0; i < nOK; i++ {
		if seen[int64(7000+i)] != 1 {
			missing++
		}
	}
	if missing > 0 || corrupt > 0 {
		c.Violation("reporter-wedged-after-oversize-batch", map[string]interface{}{"why": fmt.Sprintf("after one batch larger than the transport's 65000-byte limit, %d of %d later small batches did not arrive intact (%d corrupt datagrams)", missing, nOK, corrupt), "case": desc})
	}
	c.Event("reporter-oversize-scenarios", 1)
	c.Distinct(mon.Hash64(fmt.Sprint(desc, nOK)))
}

// c15Duplex: a client transport is full duplex - one goroutine reads replies
// (ReadByte/Read) while another builds messages with WriteByte/Write/
// WriteString and flushes; every flush must still send exactly the bytes
// written since the previous one.
func c15Duplex(c *mon.Ctx, r *mon.Rand) {
	stopW := c.Watchdog(120*time.Second, "transport-call-does-not-return", "full-duplex run")
	defer stopW()
	sink, err := mon.NewSinkReply([]byte("rrrrrrrr"), r.Range(1, 4))
	if err != nil {
		c.Inconclusive("sink: " + err.Error())
		return
	}
	defer sink.Close()
	tr, err := thriftudp.NewTUDPClientTransport(sink.Addr(), "")
	if err != nil {
		c.Inconclusive("transport: " + err.Error())
		return
	}
	c.Eval(1)
	nMsg := r.Range(20, 120)
	desc := map[string]interface{}{"scenario": "full-duplex", "messages": nMsg, "replies_per_datagram": sink.ReplyN}
	c.LogCase(fmt.Sprint(desc))
	readerDone := make(chan int)
	go func() {
		n := 0
		buf := make([]byte, 64)
		for {
			var err error
			if n%2 == 0 {
				_, err = tr.ReadByte()
			} else {
				_, err = tr.Read(buf)
			}
			if err != nil {
				break
			}
			n++
		}
		readerDone <- n
	}()
	var want [][]byte
	c.Guard("panic-transport", func() interface{} { return desc }, func() {
		for m := 0; m < nMsg; m++ {
			var msg []byte
			k := r.Range(1, 400)
			for i := 0; i < k; i++ {
				b := byte('A' + (m+i)%26)
				switch r.Intn(3) {
				case 0:
					if err := tr.WriteByte(b); err != nil {
						c.Violation("duplex-write-error", map[string]interface{}{"why": err.Error(), "case": desc})
					}
					msg = append(msg, b)
				case 1:
					p := []byte{b, b + 1}
					tr.Write(p)
					msg = append(msg, p...)
				default:
					tr.WriteString(string([]byte{b}))
					msg = append(msg, b)
				}
			}
			if err := tr.Flush(); err != nil {
				c.Violation("duplex-flush-error", map[string]interface{}{"why": err.Error(), "case": desc})
			}
			want = append(want, msg)
		}
	})
	if !sink.WaitFor(len(want), 10*time.Second) && sink.Drops() != 0 {
		c.Inconclusive("kernel dropped datagrams at the sink")
		tr.Close()
		<-readerDone
		return
	}
	sink.Settle(500 * time.Microsecond)
	tr.Close()
	nRead := <-readerDone
	got := sink.Datagrams()
	c.Event("duplex-datagrams-compared", int64(len(got)))
	c.Event("duplex-replies-read", int64(nRead))
	if len(got) != len(want) {
		c.Violation("duplex-datagram-count", map[string]interface{}{"why": fmt.Sprintf("%d datagrams received, %d flushed", len(got), len(want)), "case": desc})
		return
	}
	for i := range got {
		if !bytes.Equal(got[i], want[i]) {
			j := 0
			for j < len(got[i]) && j < len(want[i]) && got[i][j] == want[i][j] {
				j++
			}
			c.Violation("duplex-datagram-differs", map[string]interface{}{"why": fmt.Sprintf("datagram %d differs from the bytes written at offset %d (lengths %d/%d) while replies were being read concurrently", i, j, len(got[i]), len(want[i])), "case": desc})
			break
		}
	}
	c.Distinct(mon.Hash64(fmt.Sprint(desc, r.U64())))
}

// c15TwoWriters: two writers, each with a multi-destination transport of its
// own behind the byte-wise adapter the thrift protocols put in front of it
// (RichTransport), write single bytes at the same time. Each destination
// receives exactly its own writer's bytes.
func c15TwoWriters(c *mon.Ctx, r *mon.Rand) {
	stopW := c.Watchdog(120*time.Second, "transport-call-does-not-return", "two concurrent writers")
	defer stopW()
	type writer struct {
		sinks []*mon.Sink
		tr    *thriftudp.TMultiUDPTransport
		want  [][]byte
	}
	var ws [2]*writer
	for i := range ws {
		w := &writer{}
		var addrs []string
		for k, n := 0, r.Range(1, 2); k < n; k++ {
			s, err := mon.NewSink()
			if err != nil {
				c.Inconclusive("sink: " + err.Error())
				return
			}
			defer s.Close()
			w.sinks = append(w.sinks, s)
			addrs = append(addrs, s.Addr())
		}
		tr, err := thriftudp.NewTMultiUDPClientTransport(addrs, "")
		if err != nil {
			c.Inconclusive("multi transport: " + err.Error())
			return
		}
		w.tr = tr
		ws[i] = w
	}
	c.Eval(1)
	nMsg, per := r.Range(5, 30), r.Range(50, 600)
	desc := map[string]interface{}{"scenario": "two writers, one multi-destination transport each, byte-wise writes", "messages_per_writer": nMsg, "bytes_per_message": per}
	var wg sync.WaitGroup
	start := make(chan struct{})
	for i, w := range ws {
		wg.Add(1)
		go func(i int, w *writer) {
			defer wg.Done()
			rt := thrift.NewTRichTransport(w.tr)
			<-start
			c.Guard("panic-transport", func() interface{} { return desc }, func() {
				for m := 0; m < nMsg; m++ {
					msg := make([]byte, per)
					for k := range msg {
						msg[k] = byte(0x10 + 0x80*i + (m+k)%100) // writer 0: 0x10-0x73, writer 1: 0x90-0xf3
						if err := rt.WriteByte(msg[k]); err != nil {
							c.Violation("multi-write-error", map[string]interface{}{"why": err.Error(), "case": desc})
							return
						}
					}
					if err := rt.Flush(); err != nil {
						c.Violation("multi-flush-error", map[string]interface{}{"why": err.Error(), "case": desc})
					}
					w.want = append(w.want, msg)
				}
			})
		}(i, w)
	}
	close(start)
	wg.Wait()
	for i, w := range ws {
		for si, s := range w.sinks {
			if !s.WaitFor(len(w.want), 10*time.Second) && s.Drops() != 0 {
				c.Inconclusive("kernel dropped datagrams at the sink")
				return
			}
			s.Settle(300 * time.Microsecond)
			got := s.Datagrams()
			same := len(got) == len(w.want)
			for k := 0; same && k < len(got); k++ {
				same = bytes.Equal(got[k], w.want[k])
			}
			if !same {
				foreign := 0
				for _, d := range got {
					for _, b := range d {
						if (b >= 0x80) != (i == 1) {
							foreign++
						}
					}
				}
				c.Violation("multi-destination-differs", map[string]interface{}{"why": fmt.Sprintf("destination %d of writer %d received %d datagrams that are not the %d messages written (bytes that belong to the other writer: %d)", si, i, len(got), len(w.want), foreign), "case": desc})
			}
			c.Event("two-writer-datagrams-compared", int64(len(got)))
		}
		w.tr.Close()
	}
}

// c15Stalls counts the times a sink did not receive what was flushed within
// the full patience of ten seconds. Loopback delivery takes microseconds: once
// two such stalls have been seen in this process something is wrong and later
// comparisons wait two seconds only (a process that waits ten seconds per
// destination and case never gets to report what it found).
var c15Stalls int32

func c15SinkPatience() time.Duration {
	if atomic.LoadInt32(&c15Stalls) >= 2 {
		return 2 * time.Second
	}
	return 10 * time.Second
}

var c15MultiFound int32 // multi-destination mismatches raised in this process (trial executions included)
