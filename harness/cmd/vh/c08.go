package main

import (
	"fmt"
	"io"
	"math"
	"net"
	"os"
	"runtime"
	"sort"
	"strings"
	"sync"
	"sync/atomic"
	"time"

	tally "github.com/uber-go/tally/v4"
	"github.com/uber-go/tally/v4/multi"

	"verifharness/mon"
)

func init() { register("C08", runC08) }

func runC08(c *mon.Ctx) {
	c.Cases(func(i int, r *mon.Rand) {
		c08Run(c, r)
		if i%3 == 0 {
			c08ImmediateClose(c, r.Fork(8))
		}
		c08SparseShutdown(c, r.Fork(9))
		c08DeriveAcrossClose(c, r.Fork(10))
		if i%200 == 0 {
			c08BlockedPass(c, r.Fork(11))
		}
		c08MultiCloser(c, r.Fork(12))
		c08PanickingReporter(c, r.Fork(13))
	})
}

// c08SparseShutdown: shutdowns of applications that recorded little - only
// timers (delivered at once, never buffered), only one kind of buffered metric,
// or nothing at all since the last pass. Whatever was delivered before Close
// returned must be followed by a Flush; a closable reporter is closed once,
// after that flush.
func c08SparseShutdown(c *mon.Ctx, r *mon.Rand) {
	cached := r.Bool()
	closable := r.Bool()
	var rec *mon.Recorder
	opts := tally.ScopeOptions{OmitCardinalityMetrics: !r.Chance(1, 4)}
	if cached {
		cr := mon.NewCachedRec(true)
		rec = cr.Recorder
		opts.CachedReporter = cr
		if closable {
			opts.CachedReporter = mon.CachedRecCloser{CachedRec: cr}
		}
	} else {
		pr := mon.NewPlainRec(true)
		rec = pr.Recorder
		opts.Reporter = pr
		if closable {
			opts.Reporter = mon.PlainRecCloser{PlainRec: pr}
		}
	}
	interval := time.Duration(0)
	if r.Bool() {
		interval = time.Duration(r.Range(200, 5000)) * time.Microsecond
	}
	what := r.Pick("timers", "timers", "counter", "gauge", "histogram", "nothing")
	passBefore := r.Bool()
	desc := map[string]interface{}{"scenario": "sparse shutdown", "cached": cached, "closable_reporter": closable, "interval_us": interval.Microseconds(), "recorded": what, "a_pass_before_the_last_records": passBefore, "cardinality_metrics": !opts.OmitCardinalityMetrics}
	c.Eval(1)
	stop := c.Watchdog(120*time.Second, "close-or-recorders-do-not-return", desc)
	defer stop()
	var closeErr error
	if c.Guard("panic-sparse-shutdown", func() interface{} { return desc }, func() {
		root, closer := vNewRoot(opts, interval, uint(r.Range(0, 2)))
		sc := root.Tagged(map[string]string{"k": "v"})
		tm, ctr, g, h := sc.Timer("t"), sc.Counter("c"), sc.Gauge("g"), sc.Histogram("h", tally.ValueBuckets{1})
		record := func() {
			switch what {
			case "timers":
				for k := 0; k < r.Range(1, 4); k++ {
					tm.Record(time.Duration(k+1) * time.Millisecond)
				}
			case "counter":
				ctr.Inc(3)
			case "gauge":
				g.Update(4)
			case "histogram":
				h.RecordValue(0.5)
			}
		}
		if passBefore {
			record()
			tally.VerifReportPass(root)
		}
		record()
		rec.Mark("close-called", 0)
		closeErr = closer.Close()
		rec.Mark("close-returned", 0)
	}) {
		return
	}
	if closeErr != nil {
		c.Violation("close-error-invented", map[string]interface{}{"why": closeErr.Error(), "case": desc})
	}
	log, _, _ := rec.Snapshot()
	var lastDelivery, lastFlush, closeSeq, returned int64 = -1, -1, -1, -1
	closes := 0
	for _, ev := range log {
		switch ev.Kind {
		case mon.EvCounter, mon.EvGauge, mon.EvTimer, mon.EvHistV, mon.EvHistD:
			lastDelivery = ev.Seq
		case mon.EvFlush:
			lastFlush = ev.Seq
		case mon.EvClose:
			closes++
			closeSeq = ev.Seq
		case mon.EvMarker:
			if ev.Marker == "close-returned" {
				returned = ev.Seq
			}
		}
	}
	if lastDelivery > returned || lastFlush > returned {
		c.Violation("delivery-after-close-returned", map[string]interface{}{"why": "a delivery or flush is logged after Close had returned", "case": desc})
	}
	if lastDelivery >= 0 && lastFlush < lastDelivery {
		c.Violation("no-flush-after-final-delivery", map[string]interface{}{"why": "the last delivery before Close returned (" + what + ") is not followed by a Flush", "case": desc})
	}
	if closable && (closes != 1 || closeSeq < lastFlush || closeSeq < lastDelivery) {
		c.Violation("reporter-close-count", map[string]interface{}{"why": fmt.Sprintf("a closable reporter was closed %d times (or before the final flush)", closes), "case": desc})
	}
	if !closable && closes != 0 {
		c.Violation("reporter-close-count", map[string]interface{}{"why": "a reporter without io.Closer was closed?", "case": desc})
	}
	c.Event("sparse-shutdowns", 1)
	c.Distinct(mon.Hash64("sparse", fmt.Sprint(desc)))
}

func reportLoopGoroutines() int {
	buf := make([]byte, 1<<20)
	n := runtime.Stack(buf, true)
	return strings.Count(string(buf[:n]), "tally/v4.(*scope).reportLoop(")
}

func c08Run(c *mon.Ctx, r *mon.Rand) {
	cached := r.Bool()
	closerKind := r.Intn(3) // 0 no io.Closer, 1 closer ok, 2 closer that errors
	var rec *mon.Recorder
	opts := tally.ScopeOptions{OmitCardinalityMetrics: r.Bool()}
	if cached {
		cr := mon.NewCachedRec(true)
		rec = cr.Recorder
		if closerKind > 0 {
			opts.CachedReporter = mon.CachedRecCloser{CachedRec: cr}
		} else {
			opts.CachedReporter = cr
		}
	} else {
		pr := mon.NewPlainRec(true)
		rec = pr.Recorder
		if closerKind > 0 {
			opts.Reporter = mon.PlainRecCloser{PlainRec: pr}
		} else {
			opts.Reporter = pr
		}
	}
	// every fifth shutdown configures both reporter kinds: deliveries, the final
	// flush and the close must then all go to one and the same reporter
	both := r.Chance(1, 5)
	var recB *mon.Recorder
	if both {
		if cached {
			pr := mon.NewPlainRec(true)
			recB = pr.Recorder
			if closerKind > 0 {
				opts.Reporter = mon.PlainRecCloser{PlainRec: pr}
			} else {
				opts.Reporter = pr
			}
		} else {
			cr := mon.NewCachedRec(true)
			recB = cr.Recorder
			if closerKind > 0 {
				opts.CachedReporter = mon.CachedRecCloser{CachedRec: cr}
			} else {
				opts.CachedReporter = cr
			}
		}
		recB.Src = 1
	}
	// a quarter of the shutdowns without a closable reporter reach the recorder
	// through two levels of multi reporters (an application-wide fan-out that
	// contains a per-team fan-out): reports and the final flush must get through
	viaMulti := closerKind == 0 && !both && r.Chance(1, 4)
	if viaMulti {
		if cached {
			opts.CachedReporter = multi.NewMultiCachedReporter(multi.NewMultiCachedReporter(opts.CachedReporter))
		} else {
			opts.Reporter = multi.NewMultiReporter(multi.NewMultiReporter(opts.Reporter))
		}
	}
	var closeErr error
	if closerKind == 2 {
		// (any error value: a sentinel of the harness, the standard library's
		// "already closed" errors bare or wrapped, a path error)
		closeErr = []error{mon.ErrRecClose, mon.ErrRecClose, os.ErrClosed, fmt.Errorf("flush connection: %w", os.ErrClosed), net.ErrClosed, &os.PathError{Op: "close", Path: "/dev/metrics", Err: os.ErrClosed}, io.ErrClosedPipe}[r.Intn(7)]
		rec.CloseErr = closeErr
		if recB != nil {
			recB.CloseErr = closeErr
		}
	}
	interval := time.Duration(r.Range(100, 500)) * time.Microsecond
	switch r.Intn(4) {
	case 0:
		interval = time.Duration(r.Range(1000, 5000)) * time.Microsecond
	case 1:
		interval = 20 * time.Millisecond // Close lands before the first tick
	}
	manual := r.Chance(1, 4)
	if manual {
		interval = 0
	}
	nSub := r.Range(5, 120)
	nZ := r.Range(0, 12)
	nClosers := r.Range(1, 3)
	slowMax := r.Range(0, 300)
	slowProb := r.Range(0, 60) // per mille of reporter calls that are slow
	if r.Bool() {
		slowProb = 0
	}
	dr := r.Fork(99)
	var dmu sync.Mutex
	rec.Delay = func(k mon.EvKind) {
		dmu.Lock()
		slow := dr.Intn(1000) < slowProb
		d := time.Duration(dr.Intn(slowMax+1)) * time.Microsecond
		dmu.Unlock()
		if slow {
			time.Sleep(d)
		}
	}
	if recB != nil {
		recB.Delay = rec.Delay
	}
	prof := mon.RandomProfile(r, []int{tally.VerifPassBegin, tally.VerifPassLocked, tally.VerifCloseEnter, tally.VerifCloseBeforeFinal, tally.VerifCloseAfterFinal, tally.VerifRegScopeReported, tally.VerifReacquireBeforeReport}, r.Intn(3))
	switch r.Intn(4) {
	case 0:
		prof = mon.DelayProfile{} // no injected delays: passes are short, Close lands between ticks
	case 1:
		// keep the ticker goroutine busy around the lock: a Close that does not wait for it is caught red-handed
		prof.Prob[tally.VerifPassBegin], prof.Prob[tally.VerifPassEnd], prof.Strength = 900, 900, 2
	}
	inj := mon.NewDelayInjector(r.U64(), prof, true)
	baseHook := inj.Hook
	tally.VerifSetHook(func(id int) {
		switch id {
		case tally.VerifPassLocked:
			rec.Mark("pass-locked", 0)
		case tally.VerifPassEnd:
			rec.Mark("pass-end", 0)
		}
		baseHook(id)
	})
	defer tally.VerifSetHook(nil)
	before := reportLoopGoroutines()
	root, closer := vNewRoot(opts, interval, uint(r.Range(0, 4)))
	desc := map[string]interface{}{"cached": cached, "both_reporter_kinds_configured": both, "through_nested_multi_reporters": viaMulti, "closer": []string{"none", "ok", "errors"}[closerKind], "interval_us": interval.Microseconds(), "manual_passes": manual,
		"subscopes": nSub, "closed_subscopes_requested_again_during_close": nZ, "close_callers": nClosers, "slow_reporter_permille": slowProb, "slow_max_us": slowMax}
	c.LogCase(fmt.Sprint(desc))
	stopWatch := c.Watchdog(300*time.Second, "close-or-recorders-do-not-return", desc)
	defer stopWatch()

	// guaranteed metrics: recorded strictly before Close is called
	type gm struct {
		ctr   tally.Counter
		g     tally.Gauge
		h     tally.Histogram
		name  string
		sum   int64
		last  uint64
		hsum  int64
		gUpd  bool
		hname string
	}
	gms := make([]*gm, nSub)
	for i := range gms {
		sc := root.SubScope(fmt.Sprintf("s%d", i))
		gms[i] = &gm{ctr: sc.Counter("c"), g: sc.Gauge("g"), h: sc.Histogram("h", tally.ValueBuckets{}), name: fmt.Sprintf("s%d", i)}
	}
	lateOldSub, lateOldTagged := root.SubScope("old"), root.Tagged(map[string]string{"old": "1"})
	zs := make([]tally.Scope, nZ)
	for k := range zs {
		zs[k] = root.SubScope(fmt.Sprintf("z%d", k))
	}
	ys := make([]tally.Scope, 20*nZ)
	for k := range ys {
		ys[k] = root.SubScope(fmt.Sprintf("y%d", k))
	}
	// first use of a few gauge names by four goroutines at the same moment
	fgScope := root.SubScope("fg")
	fgs := make([][]tally.Gauge, 6)
	for k := range fgs {
		fgs[k] = make([]tally.Gauge, 4)
		var fw, fstart sync.WaitGroup
		fstart.Add(1)
		for g := 0; g < 4; g++ {
			fw.Add(1)
			go func(k, g int) {
				defer fw.Done()
				fstart.Wait()
				fgs[k][g] = fgScope.Gauge(fmt.Sprintf("g%d", k))
			}(k, g)
		}
		fstart.Done()
		fw.Wait()
	}
	ngScope := root.SubScope("ng")
	ngCtr := []tally.Counter{ngScope.Counter("a"), ngScope.Counter("b")}
	ngGauge := ngScope.Gauge("g")

	var stop int32
	var wgG, wgN sync.WaitGroup
	nW := r.Range(1, 4)
	iters := r.Range(50, 2000)
	for w := 0; w < nW; w++ {
		wgG.Add(1)
		wr := r.Fork(uint64(w + 1))
		go func(w int) {
			defer wgG.Done()
			for i := 0; i < iters; i++ {
				m := gms[w+nW*wr.Intn((nSub+nW-1-w)/nW)]
				switch wr.Intn(3) {
				case 0:
					v := int64(wr.Range(1, 9))
					m.sum += v
					m.ctr.Inc(v)
				case 1:
					v := float64(wr.Range(1, 1<<30))
					m.last, m.gUpd = math.Float64bits(v), true
					m.g.Update(v)
				default:
					m.hsum++
					m.h.RecordValue(1)
				}
			}
		}(w)
	}
	var ngSum [2]int64
	for w := 0; w < 2; w++ {
		wgN.Add(1)
		go func(w int) {
			defer wgN.Done()
			for atomic.LoadInt32(&stop) == 0 {
				atomic.AddInt64(&ngSum[w], 1)
				ngCtr[w].Inc(1)
				ngGauge.Update(float64(w))
				runtime.Gosched()
			}
		}(w)
	}
	if manual {
		for p := 0; p < 2; p++ {
			wgN.Add(1)
			go func() {
				defer wgN.Done()
				for atomic.LoadInt32(&stop) == 0 {
					tally.VerifReportPass(root)
					time.Sleep(50 * time.Microsecond)
				}
			}()
		}
	}
	wgG.Wait() // every guaranteed recording has completed
	if r.Bool() {
		time.Sleep(time.Duration(r.Range(0, 1500)) * time.Microsecond)
	}
	// 1-3 concurrent Close callers
	errs := make([]error, nClosers)
	var aliveAtReturn int32
	var wgC sync.WaitGroup
	startC := make(chan struct{})
	for i := 0; i < nClosers; i++ {
		wgC.Add(1)
		go func(i int) {
			defer wgC.Done()
			<-startC
			rec.Mark("close-called", i)
			errs[i] = closer.Close()
			rec.Mark("close-returned", i)
			// Close waits for the report loop: not a single reportLoop frame may exist now
			if n := reportLoopGoroutines(); n > before {
				atomic.AddInt32(&aliveAtReturn, 1)
			}
		}(i)
	}
	// subscopes that were closed a moment before the shutdown (still registered:
	// only a report pass drops them) and are asked for again while it runs - the
	// registry reports such a scope on the spot, from the asking goroutine. What
	// they hold was recorded before Close was called.
	for k, z := range zs {
		z.Counter("c").Inc(int64(k + 1))
		z.(io.Closer).Close()
	}
	// ... and subscopes that two goroutines close, each of them every one, while
	// the shutdown runs (a handle may be closed any number of times, by anyone)
	for k, y := range ys {
		y.Counter("c").Inc(int64(k + 1))
	}
	for d := 0; d < 2 && len(ys) > 0; d++ {
		wgC.Add(1)
		go func(d int) {
			defer wgC.Done()
			<-startC
			c.Guard("panic-subscope-close-during-close", func() interface{} { return desc }, func() {
				// one goroutine front to back, the other back to front; the shutdown
				// itself walks over the same scopes at the same time
				for k := range ys {
					if d == 1 {
						k = len(ys) - 1 - k
					}
					ys[k].(io.Closer).Close()
				}
			})
		}(d)
	}
	// gauges whose first use was made by several goroutines at once: every
	// handle is the one gauge, so after each handle was updated in turn (before
	// Close is called) the last of these updates is what the reporter ends on
	for k := range fgs {
		for g, h := range fgs[k] {
			h.Update(float64(1000*k + g + 1))
		}
	}
	for d := 0; d < 2 && len(zs) > 0; d++ {
		wgC.Add(1)
		go func(d int) {
			defer wgC.Done()
			<-startC
			c.Guard("panic-derive-during-close", func() interface{} { return desc }, func() {
				for k := d; k < len(zs); k += 2 {
					// only derived: a scope handed out while Close runs is an old
					// handle, not one "obtained afterwards", and first uses on it may
					// still reach the reporter
					root.SubScope(fmt.Sprintf("z%d", k))
				}
			})
		}(d)
	}
	close(startC)
	wgC.Wait()
	// keep the non-guaranteed workers and passers going for a while after Close returned
	if interval > 0 && interval < time.Millisecond {
		time.Sleep(50 * interval)
	} else if interval > 0 {
		time.Sleep(3 * interval)
	} else {
		time.Sleep(2 * time.Millisecond)
	}
	// late use: inert scopes, old handles, further Close calls, further passes
	latePanic := c.Guard("panic-after-close", func() interface{} { return desc }, func() {
		late := root.SubScope("late")
		late.Counter("x").Inc(1)
		late.Gauge("y").Update(1)
		late.Histogram("z", nil).RecordDuration(time.Second)
		root.Tagged(map[string]string{"late": "1"}).Counter("x").Inc(1)
		// every way of deriving a scope after Close must give an inert scope,
		// from the root and from handles obtained before the Close
		oldSub, oldTagged := lateOldSub, lateOldTagged
		for _, sc := range []tally.Scope{root.Tagged(nil), root.Tagged(map[string]string{}), root.SubScope(""), oldSub.Tagged(nil), oldSub.SubScope("x"), oldTagged.Tagged(map[string]string{}), oldTagged.SubScope("")} {
			sc.Counter("late-c").Inc(1)
			sc.Gauge("late-g").Update(1)
			sc.Timer("late-t").Record(time.Second)
			sc.Histogram("late-h", tally.ValueBuckets{1}).RecordValue(1)
			sc.Timer("late-t").Start().Stop()
		}
		gms[0].ctr.Inc(1)
		gms[0].g.Update(5)
		gms[0].h.RecordValue(1)
		tally.VerifReportPass(root)
		for k := 0; k < 2; k++ {
			if err := closer.Close(); err != nil {
				c.Violation("later-close-returns-error", map[string]interface{}{"why": fmt.Sprintf("a Close call after the shutdown returned %v", err), "case": desc})
			}
		}
		if s, ok := root.SubScope("late2").(io.Closer); ok {
			s.Close()
		}
	})
	_ = latePanic
	atomic.StoreInt32(&stop, 1)
	wgN.Wait()
	atomic.StoreInt32(&inj.Off, 1)
	rec.Delay = nil

	c.Eval(1)
	log, _, _ := rec.Snapshot()
	bad := func(sig, why string) { c.Violation(sig, map[string]interface{}{"why": why, "case": desc}) }
	if recB != nil {
		recB.Delay = nil
		logB, _, _ := recB.Snapshot()
		log = append(log, logB...)
		sort.Slice(log, func(i, j int) bool { return log[i].Seq < log[j].Seq })
		var src [2]map[string]int
		src[0], src[1] = map[string]int{}, map[string]int{}
		for _, ev := range log {
			switch ev.Kind {
			case mon.EvCounter, mon.EvHistV, mon.EvHistD, mon.EvGauge:
				if strings.HasPrefix(ev.Name, "tally.internal.") {
					continue // the library hands its own cardinality gauges to both reporters
				}
				src[ev.Src]["deliveries"]++
			case mon.EvFlush:
				src[ev.Src]["flushes"]++
			case mon.EvClose:
				src[ev.Src]["closes"]++
			}
		}
		if len(src[0]) > 0 && len(src[1]) > 0 {
			bad("shutdown-split-over-both-reporters", fmt.Sprintf("both reporter kinds are configured: the first-configured-kind reporter saw %v, the other one %v - deliveries, final flush and close must go to one and the same reporter", src[0], src[1]))
		}
		c.Class("shutdowns-with-both-reporter-kinds", 1)
	}
	var firstCalled, firstReturned int64 = -1, -1
	for _, ev := range log {
		if ev.Kind == mon.EvMarker && ev.Marker == "close-called" && firstCalled < 0 {
			firstCalled = ev.Seq
		}
		if ev.Kind == mon.EvMarker && ev.Marker == "close-returned" && firstReturned < 0 {
			firstReturned = ev.Seq
		}
	}
	M := firstReturned
	sumBefore := map[string]int64{}
	lastGauge := map[string]uint64{}
	var lastDelivery, lastFlush, closeEvents int64 = -1, -1, 0
	var closeSeq int64 = -1
	inPass := false
	sawPass := false
	where := "between-ticks"
	for _, ev := range log {
		if ev.Seq < firstCalled && ev.Kind == mon.EvMarker {
			if ev.Marker == "pass-locked" {
				inPass, sawPass = true, true
			} else if ev.Marker == "pass-end" {
				inPass = false
			}
		}
		switch ev.Kind {
		case mon.EvCounter, mon.EvHistV, mon.EvHistD, mon.EvGauge, mon.EvTimer:
			if ev.Seq > M {
				bad("delivery-after-close-returned", fmt.Sprintf("%s %q delivered after Close had returned", ev.Kind, ev.Name))
				continue
			}
			lastDelivery = ev.Seq
			if ev.Kind == mon.EvGauge {
				lastGauge[ev.Key] = ev.F
			} else {
				sumBefore[ev.Key] += ev.I
			}
		case mon.EvFlush:
			if ev.Seq > M {
				bad("flush-after-close-returned", "Flush invoked after Close had returned")
				continue
			}
			lastFlush = ev.Seq
		case mon.EvAllocCounter, mon.EvAllocGauge, mon.EvAllocTimer, mon.EvAllocHist:
			if ev.Seq > M {
				bad("allocation-after-close-returned", fmt.Sprintf("%s %q allocated on the reporter after Close had returned (a scope obtained after Close is not inert)", ev.Kind, ev.Name))
			}
		case mon.EvClose:
			closeEvents++
			closeSeq = ev.Seq
			if ev.Seq > M {
				bad("reporter-closed-after-close-returned", "the reporter's Close ran after scope Close had returned")
			}
		}
	}
	if !sawPass {
		where = "before-first-pass"
	} else if inPass {
		where = "mid-pass"
	}
	c.Class("close-landed-"+where, 1)
	if c.Verbose {
		fmt.Println("WHERE", where, desc)
	}
	if c.Verbose {
		for _, ev := range log {
			if ev.Kind == mon.EvMarker || ev.Kind == mon.EvFlush {
				fmt.Println(ev.Seq, ev.Kind, ev.Marker, ev.Who)
			}
		}
	}
	for _, m := range gms {
		c.Event("guaranteed-metrics-checked", 3)
		if got := sumBefore[mon.IdentKey(m.name+".c", nil)]; got != m.sum {
			bad("not-delivered-before-close-returned", fmt.Sprintf("counter %s.c: %d delivered before Close returned, %d recorded before Close was called (landed %s)", m.name, got, m.sum, where))
		}
		if got := sumBefore[mon.BucketKeyV(m.name+".h", nil, -math.MaxFloat64, math.MaxFloat64)]; got != m.hsum {
			bad("not-delivered-before-close-returned", fmt.Sprintf("histogram %s.h: %d samples delivered before Close returned, %d recorded (landed %s)", m.name, got, m.hsum, where))
		}
		if m.gUpd {
			if got := lastGauge[mon.IdentKey(m.name+".g", nil)]; got != m.last {
				bad("not-delivered-before-close-returned", fmt.Sprintf("gauge %s.g: most recent value before Close returned %#x, last update %#x (landed %s)", m.name, got, m.last, where))
			}
		}
	}
	for k := range ys {
		c.Event("guaranteed-metrics-checked", 1)
		if got := sumBefore[mon.IdentKey(fmt.Sprintf("y%d.c", k), nil)]; got != int64(k+1) {
			bad("not-delivered-before-close-returned", fmt.Sprintf("counter y%d.c of a subscope that other goroutines closed during the shutdown: %d delivered before Close returned, %d recorded before Close was called (landed %s)", k, got, k+1, where))
		}
	}
	for k := range fgs {
		c.Event("guaranteed-metrics-checked", 1)
		want := math.Float64bits(float64(1000*k + 4))
		if got := lastGauge[mon.IdentKey(fmt.Sprintf("fg.g%d", k), nil)]; got != want {
			bad("not-delivered-before-close-returned", fmt.Sprintf("gauge fg.g%d (first used by four goroutines at once, then updated through each of their handles in turn): most recent value before Close returned %v, last update %v (landed %s)", k, math.Float64frombits(got), math.Float64frombits(want), where))
		}
	}
	for k := range zs {
		c.Event("guaranteed-metrics-checked", 1)
		if got := sumBefore[mon.IdentKey(fmt.Sprintf("z%d.c", k), nil)]; got != int64(k+1) {
			bad("not-delivered-before-close-returned", fmt.Sprintf("counter z%d.c of a subscope closed just before the shutdown and requested again during it: %d delivered before Close returned, %d recorded before Close was called (landed %s)", k, got, k+1, where))
		}
	}
	if lastDelivery >= 0 && lastFlush < lastDelivery {
		bad("no-flush-after-final-delivery", "the last delivery before Close returned is not followed by a Flush")
	}
	if closerKind > 0 {
		if closeEvents != 1 {
			bad("reporter-close-count", fmt.Sprintf("reporter closed %d times", closeEvents))
		} else if closeSeq < lastFlush || closeSeq < lastDelivery {
			bad("reporter-closed-before-final-flush", "the reporter was closed before the final deliveries/flush")
		}
		nErr := 0
		for _, e := range errs {
			if e != nil {
				nErr++
				if e != closeErr {
					bad("close-error-changed", fmt.Sprintf("Close returned %v, the reporter's Close returned %v", e, closeErr))
				}
			}
		}
		if closerKind == 2 && nErr != 1 {
			bad("close-error-not-returned-once", fmt.Sprintf("%d of %d Close callers received the reporter's error", nErr, nClosers))
		}
		if closerKind == 1 && nErr != 0 {
			bad("close-error-invented", fmt.Sprintf("Close returned errors %v although the reporter closed fine", errs))
		}
	} else {
		if closeEvents != 0 {
			bad("reporter-close-count", "a reporter without io.Closer was closed?")
		}
		for _, e := range errs {
			if e != nil {
				bad("close-error-invented", fmt.Sprintf("Close returned %v", e))
			}
		}
	}
	if aliveAtReturn > 0 {
		bad("report-loop-alive-when-close-returned", fmt.Sprintf("%d Close callers found the reportLoop goroutine still on a stack at the moment Close returned", aliveAtReturn))
	}
	// the reporting goroutine has ended (bounded-progress form)
	leaked := true
	for t := 0; t < 200; t++ {
		if reportLoopGoroutines() <= before {
			leaked = false
			break
		}
		time.Sleep(25 * time.Millisecond)
	}
	if leaked {
		bad("report-loop-goroutine-still-running", "a reportLoop goroutine is still present 5s after Close returned")
	}
	hits, inter, sigs := inj.Stats.Report()
	for _, s := range sigs {
		c.Distinct(mon.Hash64(s))
	}
	c.Distinct(mon.Hash64(where, fmt.Sprint(cached, closerKind, manual, nClosers)))
	mergeStats(c, hits, inter)
	c.Event("reporter-events-observed", int64(len(log)))
	if c.WantSample() {
		c.Sample(map[string]interface{}{"config": desc, "close_landed": where})
	}
}

// c08ImmediateClose: Close called right after the root was built, before the
// reporting goroutine has had a chance to run (one P: a new goroutine only
// runs once its creator yields). When Close returns, that goroutine must have
// ended all the same - it must not merely be "not started yet".
func c08ImmediateClose(c *mon.Ctx, r *mon.Rand) {
	prev := runtime.GOMAXPROCS(1)
	defer runtime.GOMAXPROCS(prev)
	sightings := 0
	for k := 0; k < 10; k++ {
		before := reportLoopGoroutines()
		pr := mon.NewPlainRec(true)
		interval := time.Duration(r.Range(1, 50)) * time.Millisecond
		root, closer := tally.NewRootScope(tally.ScopeOptions{Reporter: pr, OmitCardinalityMetrics: true}, interval)
		if r.Bool() {
			root.Counter("c").Inc(1)
		}
		err := closer.Close()
		alive := reportLoopGoroutines() - before
		if err != nil {
			c.Violation("close-error-invented", map[string]interface{}{"why": fmt.Sprintf("Close right after construction returned %v", err)})
		}
		if alive > 0 {
			sightings++
		}
		c.Event("immediate-closes", 1)
	}
	// a goroutine that has signalled the wait group and is executing its last
	// few instructions can be caught alive once in a while (on a loaded machine
	// the runtime preempts it right there); a reporting goroutine Close does not
	// wait for is alive in every one of the ten trials
	if sightings >= 6 {
		c.Violation("report-loop-alive-when-close-returned", map[string]interface{}{"why": fmt.Sprintf("Close was called right after NewRootScope (one P, the reporting goroutine had not run yet) and returned while that goroutine still existed - in %d of 10 trials", sightings)})
	} else if sightings > 0 {
		c.Class("goroutine-seen-in-its-last-instructions", int64(sightings))
	}
}

// c08DeriveAcrossClose: one derivation is held between its read-locked probe
// and its write lock (a goroutine can be descheduled there) while the root's
// Close runs from start to end. Whatever that derivation returns, a scope
// asked for AFTER Close has returned - with the same tags or others, from the
// root or from an old subscope - is inert: first uses allocate nothing on the
// reporter and timers forward nothing.
func c08DeriveAcrossClose(c *mon.Ctx, r *mon.Rand) {
	cached := r.Bool()
	var rec *mon.Recorder
	opts := tally.ScopeOptions{OmitCardinalityMetrics: true}
	if cached {
		cr := mon.NewCachedRec(true)
		rec, opts.CachedReporter = cr.Recorder, cr
	} else {
		pr := mon.NewPlainRec(true)
		rec, opts.Reporter = pr.Recorder, pr
	}
	interval := time.Duration(0)
	if r.Bool() {
		interval = time.Duration(r.Range(100, 2000)) * time.Microsecond
	}
	root, closer := vNewRoot(opts, interval, uint(r.Range(0, 4)))
	oldSub := root.SubScope("old")
	oldSub.Counter("c").Inc(1)
	fromSub := r.Bool()
	tags := map[string]string{"across": fmt.Sprint(r.Intn(1000))}
	desc := map[string]interface{}{"cached": cached, "interval_us": interval.Microseconds(), "derivation_on_an_old_subscope": fromSub}
	var deriverGid int64
	atUpgrade, closedCh := make(chan struct{}), make(chan struct{})
	var once sync.Once
	tally.VerifSetHook(func(id int) {
		if id == int(tally.VerifSubscopeUpgrade) && mon.Goid() == atomic.LoadInt64(&deriverGid) {
			once.Do(func() {
				close(atUpgrade)
				<-closedCh
			})
		}
	})
	defer tally.VerifSetHook(nil)
	stop := c.Watchdog(120*time.Second, "close-does-not-return-while-a-derivation-is-paused", desc)
	defer stop()
	done := make(chan struct{})
	go func() {
		defer close(done)
		atomic.StoreInt64(&deriverGid, mon.Goid())
		c.Guard("panic-derive-during-close", func() interface{} { return desc }, func() {
			if fromSub {
				oldSub.Tagged(copyTagMap(tags))
			} else {
				root.Tagged(copyTagMap(tags))
			}
		})
		once.Do(func() { close(atUpgrade) }) // (the derivation never reached the upgrade)
	}()
	<-atUpgrade
	closer.Close()
	M := mon.NextSeq()
	close(closedCh)
	<-done
	c.Guard("panic-after-close", func() interface{} { return desc }, func() {
		for _, sc := range []tally.Scope{root.Tagged(copyTagMap(tags)), oldSub.Tagged(copyTagMap(tags)), root.Tagged(map[string]string{"other": "1"}), root.SubScope("old").Tagged(copyTagMap(tags))} {
			sc.Counter("late-across-c").Inc(1)
			sc.Gauge("late-across-g").Update(1)
			sc.Timer("late-across-t").Record(time.Second)
			sc.Histogram("late-across-h", tally.ValueBuckets{1}).RecordValue(1)
		}
		tally.VerifReportPass(root)
	})
	log, _, _ := rec.Snapshot()
	for _, ev := range log {
		if ev.Seq > M && strings.HasPrefix(ev.Name, "late-across") || ev.Seq > M && strings.HasPrefix(ev.Name, "old.late-across") {
			c.Violation("scope-obtained-after-close-not-inert", map[string]interface{}{"why": fmt.Sprintf("%s %q reached the reporter through a scope asked for after Close had returned (a derivation with the same tags had been under way while Close ran)", ev.Kind, ev.Name), "case": desc})
			break
		}
	}
	c.Event("closes-with-a-derivation-paused-before-its-write-lock", 1)
}

// c08BlockedPass: a periodic pass is blocked inside a reporter call (a report
// or the flush) when Close is called, and stays blocked for 3.5-4 seconds
// (longer than any patience a Close might have). Close must not return while
// that pass is inside the reporter; once the call is released Close returns.
// The verdict is on the order of events (Close returned before the reporter
// call did), the seconds only decide how long the probe looks.
func c08BlockedPass(c *mon.Ctx, r *mon.Rand) {
	cached := r.Bool()
	blockOn := mon.EvCounter
	if r.Bool() {
		blockOn = mon.EvFlush
	}
	var rec *mon.Recorder
	opts := tally.ScopeOptions{OmitCardinalityMetrics: true}
	if cached {
		cr := mon.NewCachedRec(true)
		rec, opts.CachedReporter = cr.Recorder, cr
	} else {
		pr := mon.NewPlainRec(true)
		rec, opts.Reporter = pr.Recorder, pr
	}
	var armed, inside int32
	entered, release := make(chan struct{}), make(chan struct{})
	rec.Delay = func(k mon.EvKind) {
		if k == blockOn && atomic.LoadInt32(&armed) == 1 && atomic.CompareAndSwapInt32(&inside, 0, 1) {
			close(entered)
			<-release
			atomic.StoreInt32(&inside, 2)
		}
	}
	hold := time.Duration(r.Range(3500, 4000)) * time.Millisecond
	desc := map[string]interface{}{"cached": cached, "pass_blocked_in": blockOn.String(), "held_ms": hold.Milliseconds()}
	root, closer := vNewRoot(opts, time.Millisecond, uint(r.Range(0, 2)))
	ctr := root.Counter("c")
	atomic.StoreInt32(&armed, 1)
	ctr.Inc(1)
	stop := c.Watchdog(120*time.Second, "close-or-pass-does-not-finish", desc)
	defer stop()
	<-entered // the ticker's pass is inside the reporter now
	var returned int32
	done := make(chan struct{})
	go func() {
		defer close(done)
		closer.Close()
		atomic.StoreInt32(&returned, 1)
	}()
	time.Sleep(hold)
	early := atomic.LoadInt32(&returned) == 1 && atomic.LoadInt32(&inside) == 1
	close(release)
	<-done
	if early {
		c.Violation("close-returned-while-a-pass-was-inside-the-reporter", map[string]interface{}{"why": fmt.Sprintf("a periodic pass was blocked inside the reporter's %s call when Close was called; Close returned while it was still there (within %v)", blockOn, hold), "case": desc})
	}
	c.Event("closes-with-a-pass-blocked-in-the-reporter-for-seconds", 1)
	c.Eval(1)
}

// c08MultiCloser: the root's reporter is a multi reporter over 2-4 closable
// children of which one, not the last, fails to close. A reporter that can be
// closed is closed exactly once by the root's Close: if the multi reporter is
// closable, that holds for every one of its children and the failure is
// returned; if it is not (the pinned tree), no child is closed at all. Never
// is a child closed twice, and none is closed before the final flush.
func c08MultiCloser(c *mon.Ctx, r *mon.Rand) {
	n := r.Range(2, 4)
	cached := r.Bool()
	failing := r.Intn(n - 1)
	recs := make([]*mon.Recorder, n)
	var plain []tally.StatsReporter
	var cach []tally.CachedStatsReporter
	for i := range recs {
		if cached {
			cr := mon.NewCachedRec(true)
			recs[i], cach = cr.Recorder, append(cach, mon.CachedRecCloser{CachedRec: cr})
		} else {
			pr := mon.NewPlainRec(true)
			recs[i], plain = pr.Recorder, append(plain, mon.PlainRecCloser{PlainRec: pr})
		}
	}
	recs[failing].CloseErr = mon.ErrRecClose
	opts := tally.ScopeOptions{OmitCardinalityMetrics: true}
	var closable bool
	if cached {
		m := multi.NewMultiCachedReporter(cach...)
		_, closable = m.(io.Closer)
		opts.CachedReporter = m
	} else {
		m := multi.NewMultiReporter(plain...)
		_, closable = m.(io.Closer)
		opts.Reporter = m
	}
	desc := map[string]interface{}{"children": n, "cached": cached, "child_failing_to_close": failing, "multi_reporter_is_closable": closable}
	root, closer := vNewRoot(opts, 0, 1)
	root.Counter("c").Inc(1)
	err := closer.Close()
	for i, rec := range recs {
		log, _, _ := rec.Snapshot()
		closes, lastFlush, closeAt := 0, int64(-1), int64(-1)
		for _, ev := range log {
			switch ev.Kind {
			case mon.EvClose:
				closes++
				closeAt = ev.Seq
			case mon.EvFlush:
				lastFlush = ev.Seq
			}
		}
		if closes > 1 || closable && closes != 1 {
			c.Violation("reporter-close-count", map[string]interface{}{"why": fmt.Sprintf("child %d of the multi reporter was closed %d times by the root's Close (the multi reporter is closable: %v; child %d returns an error from Close)", i, closes, closable, failing), "case": desc})
		}
		if closes == 1 && closeAt < lastFlush {
			c.Violation("reporter-closed-before-final-flush", map[string]interface{}{"why": fmt.Sprintf("child %d was closed before its last flush", i), "case": desc})
		}
	}
	if closable && err == nil {
		c.Violation("close-error-not-returned", map[string]interface{}{"why": "a child of the closable multi reporter failed to close and the root's Close returned nil", "case": desc})
	}
	if closable {
		c.Class("shutdowns-over-a-closable-multi-reporter", 1)
	} else {
		c.Class("shutdowns-over-a-multi-reporter-that-is-not-closable(children stay open)", 1)
	}
}

// c08PanickingReporter: the reporter panics in the final flush and the caller
// of Close recovers. Close calls made afterwards still return, and so does a
// report pass.
func c08PanickingReporter(c *mon.Ctx, r *mon.Rand) {
	cached := r.Bool()
	// (in the flush, not in a report call: a reporter that panics while the
	// registry is being walked deadlocks the pinned tree as well - the deferred
	// purge asks for the write lock of the shard whose read lock the walk still
	// holds; DESIGN.md section 5, examined)
	panicOn := mon.EvFlush
	var rec *mon.Recorder
	opts := tally.ScopeOptions{OmitCardinalityMetrics: true}
	if cached {
		cr := mon.NewCachedRec(false)
		rec, opts.CachedReporter = cr.Recorder, cr
	} else {
		pr := mon.NewPlainRec(false)
		rec, opts.Reporter = pr.Recorder, pr
	}
	var armed int32
	rec.Delay = func(k mon.EvKind) {
		if k == panicOn && atomic.CompareAndSwapInt32(&armed, 1, 0) {
			panic("reporter panics")
		}
	}
	interval := time.Duration(0)
	if r.Bool() {
		interval = time.Hour // a report loop that never ticks on its own
	}
	desc := map[string]interface{}{"cached": cached, "reporter_panics_in": panicOn.String(), "with_report_loop": interval > 0}
	root, closer := vNewRoot(opts, interval, uint(r.Range(0, 2)))
	root.Counter("c").Inc(1)
	root.SubScope("s").Counter("c").Inc(1)
	atomic.StoreInt32(&armed, 1)
	panicked := false
	func() {
		defer func() {
			if recover() != nil {
				panicked = true
			}
		}()
		closer.Close()
	}()
	stop := c.Watchdog(90*time.Second, "close-after-a-recovered-reporter-panic-does-not-return", desc)
	defer stop()
	done := make(chan struct{})
	go func() {
		defer close(done)
		defer func() { recover() }()
		closer.Close()
		closer.Close()
		tally.VerifReportPass(root)
	}()
	<-done
	if panicked {
		c.Class("shutdowns-with-a-recovered-reporter-panic", 1)
	}
}
