package main

import (
	"fmt"
	"io"
	"math"
	"reflect"
	"runtime"
	"sort"
	"strings"
	"sync"
	"sync/atomic"
	"time"

	tally "github.com/uber-go/tally/v4"

	"verifharness/mon"
)

func init() { register("C05", runC05) }

func runC05(c *mon.Ctx) {
	c.Cases(func(i int, r *mon.Rand) {
		c05Identity(c, r.Fork(1))
		if i%4 == 1 {
			c05Concurrent(c, r.Fork(11))
		}
		c05KeyFn(c, r.Fork(2))
		if i%4 == 2 {
			aliasLengthCase(c, r.Fork(12), "delivered-under-other-identity/alias", true)
		}
		if i%4 == 3 {
			invalidTwinsCase(c, r.Fork(13), "delivered-under-other-identity/invalid-bytes", true)
		}
		if i%4 == 0 {
			c05SnapshotVandal(c, r.Fork(14))
		}
		if i%4 == 1 {
			c05Alphabets(c, r.Fork(15))
		}
		if i%4 == 2 {
			c09DeriveStorm(c, r.Fork(16)) // identities with long keys derived by 64 goroutines at once: one object and one counter each
		}
		if i%8 == 3 {
			c05ProcsChange(c, r.Fork(17))
		}
		if i%4 == 0 {
			c09SecondLife(c, r.Fork(18)) // a just-closed, still registered identity requested by 2-8 goroutines at once: one object
		}
		c05StaleHandles(c, r.Fork(19))
	})
}

// regroup returns a program with the same final identity as p: SubScope steps
// keep their order, the effective tag assignments are re-split into random
// groups in random order, optionally preceded by shadowed assignments.
func regroup(r *mon.Rand, p dprog, pool *strPool) dprog {
	var subs []string
	eff := map[string]string{}
	for _, st := range p {
		if st.IsTag {
			for k, v := range st.Tags {
				eff[k] = v
			}
		} else {
			subs = append(subs, st.Sub)
		}
	}
	keys := make([]string, 0, len(eff))
	for k := range eff {
		keys = append(keys, k)
	}
	sort.Strings(keys)
	r.ShuffleStrings(keys)
	var groups []map[string]string
	// shadowed assignments first: a key assigned a value that is overwritten later
	if len(keys) > 0 && r.Bool() {
		k := keys[r.Intn(len(keys))]
		groups = append(groups, map[string]string{k: pool.vals[r.Intn(len(pool.vals))] + "-shadowed"})
	}
	for i := 0; i < len(keys); {
		n := r.Range(1, len(keys)-i)
		g := map[string]string{}
		for _, k := range keys[i : i+n] {
			g[k] = eff[k]
		}
		groups = append(groups, g)
		i += n
	}
	if r.Chance(1, 3) && len(groups) > 0 {
		// idempotence: repeat one group
		groups = append(groups, copyTagMap(groups[len(groups)-1]))
	}
	if r.Chance(1, 4) {
		groups = append(groups, map[string]string{})
	}
	// interleave: choose positions for the sub steps among the tag steps
	out := dprog{}
	si, gi := 0, 0
	for si < len(subs) || gi < len(groups) {
		if gi >= len(groups) || (si < len(subs) && r.Bool()) {
			out = append(out, dstep{Sub: subs[si]})
			si++
		} else {
			out = append(out, dstep{IsTag: true, Tags: groups[gi]})
			gi++
		}
	}
	return out
}

// mutateProg returns a program meant to have a different identity.
func mutateProg(r *mon.Rand, p dprog, pool *strPool) dprog {
	q := p.clone()
	var tagIdx []int
	for i, st := range q {
		if st.IsTag && len(st.Tags) > 0 {
			tagIdx = append(tagIdx, i)
		}
	}
	switch r.Intn(8) {
	case 7: // a byte that is not valid UTF-8 appended to a value, a key or a subscope name: strings that differ only in such bytes are different strings
		bad := []string{"\xff", "\xfe", "\xc0", "\x80"}[r.Intn(4)]
		if len(tagIdx) > 0 && r.Chance(2, 3) {
			i := tagIdx[r.Intn(len(tagIdx))]
			ks := make([]string, 0, len(q[i].Tags))
			for k := range q[i].Tags {
				ks = append(ks, k)
			}
			sort.Strings(ks)
			k := ks[r.Intn(len(ks))]
			if r.Bool() {
				q[i].Tags[k] += bad
				return q
			}
			if _, clash := q[i].Tags[k+bad]; !clash {
				q[i].Tags[k+bad] = q[i].Tags[k]
				delete(q[i].Tags, k)
				return q
			}
		}
		for i, st := range q {
			if !st.IsTag {
				q[i].Sub += bad
				return q
			}
		}
		return append(q, dstep{IsTag: true, Tags: map[string]string{"k" + bad: "v"}})
	case 6: // one key renamed in its first byte ({"ak":v} -> {"bk":v})
		if len(tagIdx) > 0 {
			i := tagIdx[r.Intn(len(tagIdx))]
			ks := make([]string, 0, len(q[i].Tags))
			for k := range q[i].Tags {
				ks = append(ks, k)
			}
			sort.Strings(ks)
			k := ks[0]
			if k != "" {
				nk := string([]byte{k[0] ^ 3}) + k[1:]
				if _, clash := q[i].Tags[nk]; !clash {
					q[i].Tags[nk] = q[i].Tags[k]
					delete(q[i].Tags, k)
					return q
				}
			}
		}
	case 0: // one value changed
		if len(tagIdx) > 0 {
			i := tagIdx[r.Intn(len(tagIdx))]
			for k := range q[i].Tags {
				q[i].Tags[k] += "'"
				break
			}
			return q
		}
	case 1: // key and value swapped
		if len(tagIdx) > 0 {
			i := tagIdx[r.Intn(len(tagIdx))]
			for k, v := range q[i].Tags {
				delete(q[i].Tags, k)
				q[i].Tags[v] = k
				break
			}
			return q
		}
	case 2: // empty key / empty value added
		return append(q, dstep{IsTag: true, Tags: map[string]string{"": pool.vals[r.Intn(len(pool.vals))]}})
	case 3: // delimiter forging: {a:1,b:2} -> {a:"1,b=2"}
		if len(tagIdx) > 0 {
			i := tagIdx[r.Intn(len(tagIdx))]
			ks := make([]string, 0, len(q[i].Tags))
			for k := range q[i].Tags {
				ks = append(ks, k)
			}
			sort.Strings(ks)
			if len(ks) >= 2 {
				a, b := ks[0], ks[1]
				q[i].Tags[a] = q[i].Tags[a] + "," + b + "=" + q[i].Tags[b]
				delete(q[i].Tags, b)
				return q
			}
		}
	case 4: // prefix forging: a subscope name moved into a tag key with '+'
		for i, st := range q {
			if !st.IsTag && st.Sub != "" {
				q[i] = dstep{IsTag: true, Tags: map[string]string{st.Sub + "+x": "y"}}
				return append(q, dstep{IsTag: true, Tags: map[string]string{"x": "y"}})
			}
		}
	}
	// extra subscope level
	return append(q, dstep{Sub: pool.names[r.Intn(len(pool.names))]})
}

// c05Concurrent: several goroutines derive the same program from one root at
// the same moment and ask the resulting scope for the same counter and gauge:
// one scope, one counter, one gauge, and every increment arrives.
func c05Concurrent(c *mon.Ctx, r *mon.Rand) {
	pool := newStrPool(r, true, true, false)
	rc := pool.root(r)
	p := pool.prog(r, 3)
	ids, _ := rc.trace(p)
	if collides(ids) {
		return
	}
	cached := r.Bool()
	opts := tally.ScopeOptions{Prefix: rc.Prefix, Separator: rc.Sep, Tags: copyTagMap(rc.Tags), OmitCardinalityMetrics: true}
	var rec *mon.Recorder
	if cached {
		cr := mon.NewCachedRec(false)
		rec, opts.CachedReporter = cr.Recorder, cr
	} else {
		pr := mon.NewPlainRec(false)
		rec, opts.Reporter = pr.Recorder, pr
	}
	prof := mon.RandomProfile(r, []int{tally.VerifMetricProbeMissed, tally.VerifSubscopeUpgrade}, r.Intn(3))
	prof.Prob[tally.VerifMetricProbeMissed] = r.Range(300, 900)
	inj := mon.NewDelayInjector(r.U64(), prof, false)
	inj.Install()
	defer inj.Uninstall()
	root, _ := vNewRoot(opts, 0, uint(r.Range(0, 8)))
	G := r.Range(2, 8)
	c.Eval(1)
	desc := map[string]interface{}{"root": rc, "program": p, "goroutines": G, "cached": cached}
	scs := make([]tally.Scope, G)
	ctrs := make([]tally.Counter, G)
	gs := make([]tally.Gauge, G)
	var wg sync.WaitGroup
	var ready int32
	for g := 0; g < G; g++ {
		wg.Add(1)
		go func(g int) {
			defer wg.Done()
			defer func() { recover() }()
			atomic.AddInt32(&ready, 1)
			for atomic.LoadInt32(&ready) < int32(G) {
				runtime.Gosched()
			}
			x := p.clone().apply(root)
			scs[g] = x[len(x)-1]
			ctrs[g] = scs[g].Counter("m")
			gs[g] = scs[g].Gauge("m")
			ctrs[g].Inc(1 << uint(g))
		}(g)
	}
	wg.Wait()
	ptr := func(s tally.Scope) uintptr { return reflect.ValueOf(s).Pointer() }
	for g := 1; g < G; g++ {
		if scs[g] == nil || scs[0] == nil {
			c.Violation("panic/concurrent", map[string]interface{}{"why": "a goroutine panicked while deriving", "case": desc})
			return
		}
		if ptr(scs[g]) != ptr(scs[0]) {
			c.Violation("identity-split/concurrent", map[string]interface{}{"why": fmt.Sprintf("goroutines 0 and %d derived the same program at the same moment and got different scopes", g), "case": desc})
		}
		if ctrs[g] != ctrs[0] || gs[g] != gs[0] {
			c.Violation("metric-split/concurrent", map[string]interface{}{"why": fmt.Sprintf("goroutines 0 and %d asked one scope for the same counter/gauge at the same moment and got different metrics", g), "case": desc})
		}
	}
	tally.VerifReportPass(root)
	_, agg, _ := rec.Snapshot()
	final := ids[len(ids)-1]
	if got, want := agg[mon.IdentKey(rc.metricName(final, "m"), final.Tags)].Sum, int64(1)<<uint(G)-1; got != want {
		c.Violation("missing-delivery/concurrent", map[string]interface{}{"why": fmt.Sprintf("delivered %#x, recorded %#x through the handles obtained at the same moment", got, want), "case": desc})
	}
	c.Event("concurrent-derivations", int64(G))
}

func c05Identity(c *mon.Ctx, r *mon.Rand) {
	delims := r.Chance(1, 3)
	pool := newStrPool(r, true, true, delims)
	rc := pool.root(r)
	cached := r.Bool()
	shards := uint(r.Range(1, 64))
	if r.Bool() {
		shards = uint(r.Range(0, 3)) // 0 = the public constructor (GOMAXPROCS shards)
	}
	c.Eval(1)
	base := pool.prog(r, 4)
	if r.Chance(1, 5) {
		// a wide tag set (beyond the key writer's small-input paths) with one of
		// its keys overridden at the end
		wide := map[string]string{}
		for i, n := 0, r.Range(10, 45); i < n; i++ {
			wide[fmt.Sprintf("w%02d", i)] = pool.vals[r.Intn(len(pool.vals))]
		}
		base = append(dprog{{IsTag: true, Tags: wide}}, base...)
		base = append(base, dstep{IsTag: true, Tags: map[string]string{fmt.Sprintf("w%02d", r.Intn(len(wide))): "overridden"}})
		c.Class("cases-with-a-wide-tag-set", 1)
	}
	progs := []dprog{base}
	np := r.Range(1, 4)
	for i := 0; i < np; i++ {
		switch r.Intn(3) {
		case 0:
			progs = append(progs, regroup(r, progs[r.Intn(len(progs))], pool))
		case 1:
			progs = append(progs, mutateProg(r, progs[r.Intn(len(progs))], pool))
		default:
			progs = append(progs, pool.prog(r, 4))
		}
	}
	// half of the cases: the caller owns ONE map object and refills it for every
	// Tagged call of every program
	var reuseMap map[string]string
	if r.Bool() {
		reuseMap = map[string]string{}
	}
	desc := map[string]interface{}{"root": rc, "programs": progs, "shards": shards, "cached": cached, "caller_refills_one_map_for_every_tagged_call": reuseMap != nil}
	if c.WantSample() {
		c.Sample(desc)
	}
	kind := "plain"
	opts := tally.ScopeOptions{Prefix: rc.Prefix, Separator: rc.Sep, Tags: copyTagMap(rc.Tags), OmitCardinalityMetrics: true}
	var prec *mon.PlainRec
	var crec *mon.CachedRec
	if cached {
		kind = "cached"
		crec = mon.NewCachedRec(false)
		opts.CachedReporter = crec
	} else {
		prec = mon.NewPlainRec(false)
		opts.Reporter = prec
	}
	type node struct {
		id    ident
		key   string
		canon string
		sc    tally.Scope
		where string
	}
	var nodes []node
	var root tally.Scope
	if c.Guard("panic/"+kind, func() interface{} { return desc }, func() {
		root, _ = vNewRoot(opts, 0, shards)
		for pi, p := range progs {
			ids, _ := rc.trace(p)
			var scs []tally.Scope
			if reuseMap != nil {
				scs = p.clone().applyReusing(root, reuseMap)
			} else {
				scs = p.clone().apply(root)
			}
			for i := range ids {
				nodes = append(nodes, node{ids[i], ids[i].key(), ids[i].canonical(), scs[i], fmt.Sprintf("program %d step %d", pi, i)})
			}
		}
	}) {
		return
	}
	c.Distinct(mon.Hash64(fmt.Sprint(rc), fmt.Sprint(progs)))
	ptr := func(s tally.Scope) uintptr { return reflect.ValueOf(s).Pointer() }

	// canonical collisions among distinct identities (only with delimiter characters)
	canonOwners := map[string]map[string]bool{}
	for _, n := range nodes {
		if canonOwners[n.canon] == nil {
			canonOwners[n.canon] = map[string]bool{}
		}
		canonOwners[n.canon][n.key] = true
	}
	inCollision := func(n node) bool { return len(canonOwners[n.canon]) > 1 }

	// A canonical-key collision between two distinct identities of this case
	// (known finding KF-C05-delim) confuses the registry for everything derived
	// from either of them; such a case is only examined for the known finding.
	tainted := false
	for _, owners := range canonOwners {
		if len(owners) > 1 {
			tainted = true
		}
	}
	if tainted {
		c.Class("cases-with-delimiter-collision(only-checked-for-known-finding)", 1)
		for i := 0; i < len(nodes); i++ {
			for j := i + 1; j < len(nodes); j++ {
				a, b := nodes[i], nodes[j]
				if a.key != b.key && a.canon == b.canon && (a.id.hasDelim() || b.id.hasDelim()) && ptr(a.sc) == ptr(b.sc) {
					c.Violation("identity-merge-delim", map[string]interface{}{"why": "different identities share one scope; their canonical keys are equal because a component contains , = or +", "a": a.id, "b": b.id, "canonical": a.canon})
				}
			}
		}
		return
	}
	samePairs, diffPairs := 0, 0
	for i := 0; i < len(nodes); i++ {
		for j := i + 1; j < len(nodes); j++ {
			a, b := nodes[i], nodes[j]
			sameID := a.key == b.key
			samePtr := ptr(a.sc) == ptr(b.sc)
			if sameID {
				samePairs++
			} else {
				diffPairs++
			}
			switch {
			case sameID && !samePtr:
				c.Violation("identity-split/"+kind, map[string]interface{}{"why": "equal prefix and effective tags, but different scope objects", "a": a.where, "b": b.where, "identity": a.id, "case": desc})
			case !sameID && samePtr:
				sig := "identity-merge/"
				if a.canon == b.canon && (a.id.hasDelim() || b.id.hasDelim()) {
					sig = "identity-merge-delim"
					c.Violation(sig, map[string]interface{}{"why": "different identities share one scope; their canonical keys are equal because a component contains , = or +", "a": a.id, "b": b.id, "canonical": a.canon})
				} else {
					c.Violation(sig+kind, map[string]interface{}{"why": "different prefix or tags, but the same scope object", "a": a.where, "b": b.where, "ida": a.id, "idb": b.id, "case": desc})
				}
			}
		}
	}
	c.Event("scope-pairs-equal-identity", int64(samePairs))
	c.Event("scope-pairs-different-identity", int64(diffPairs))
	if samePairs > 0 {
		c.Class("cases-with-equal-identity-pairs", 1)
	}

	// deliveries: a unique value recorded through every distinct scope object
	// arrives under exactly that identity's name and tags
	expected := map[string]int64{} // IdentKey(name,tags) -> sum
	collided := map[string]bool{}
	seenPtr := map[uintptr]bool{}
	uniq := int64(1)
	c.Guard("panic/"+kind, func() interface{} { return desc }, func() {
		for _, n := range nodes {
			p := ptr(n.sc)
			mk := mon.IdentKey(rc.metricName(n.id, "m"), n.id.Tags)
			if inCollision(n) {
				collided[mk] = true
			}
			if seenPtr[p] {
				continue
			}
			seenPtr[p] = true
			n.sc.Counter("m").Inc(uniq)
			expected[mk] += uniq
			uniq <<= 1
			// one histogram sample per distinct scope object: it arrives under that
			// identity's full name and tags as well
			n.sc.Histogram("mh", tally.ValueBuckets{1}).RecordValue(0.5)
			hkey := mon.BucketKeyV(rc.metricName(n.id, "mh"), n.id.Tags, -math.MaxFloat64, 1)
			expected[hkey]++
			if inCollision(n) {
				collided[hkey] = true
			}
			// metric identity on this scope
			if n.sc.Counter("m") != n.sc.Counter("m") || n.sc.Gauge("m") != n.sc.Gauge("m") || n.sc.Timer("m") != n.sc.Timer("m") || n.sc.Histogram("m", nil) != n.sc.Histogram("m", nil) {
				c.Violation("metric-split/"+kind, map[string]interface{}{"why": "asking twice for the same kind and name returned different metrics", "scope": n.where, "case": desc})
			}
			// a histogram is identified by its name, whatever specification later
			// requests for that name carry (value, duration, none)
			hk := n.sc.Histogram("mk", tally.ValueBuckets{1, 2})
			if n.sc.Histogram("mk", tally.DurationBuckets{time.Second}) != hk || n.sc.Histogram("mk", tally.ValueBuckets{1, 2}) != hk || n.sc.Histogram("mk", nil) != hk {
				c.Violation("metric-split/"+kind, map[string]interface{}{"why": "asking for an existing histogram name with another bucket specification (duration instead of value buckets, then value buckets again, then none) returned a different histogram", "scope": n.where, "case": desc})
			}
			if n.sc.Counter("m") == n.sc.Counter("m'") || n.sc.Gauge("m") == n.sc.Gauge("m'") || n.sc.Timer("m") == n.sc.Timer("m'") || n.sc.Histogram("m", nil) == n.sc.Histogram("m'", nil) {
				c.Violation("metric-merge/"+kind, map[string]interface{}{"why": "different names returned the same metric", "scope": n.where, "case": desc})
			}
		}
		tally.VerifReportPass(root)
		// half of the cases: close one derived scope and derive every program
		// again - sharing must hold for the second life of an identity as well
		if len(nodes) > 1 && r.Bool() && uniq > 0 && uniq < 1<<30 {
			victim := nodes[1+r.Intn(len(nodes)-1)]
			if ptr(victim.sc) == ptr(root) {
				return
			}
			victim.sc.(io.Closer).Close()
			if r.Bool() {
				tally.VerifReportPass(root)
			}
			c.Class("cases-with-close-and-derive-again", 1)
			var nodes2 []node
			for pi, p := range progs {
				ids, _ := rc.trace(p)
				scs := p.clone().apply(root)
				for i := range ids {
					nodes2 = append(nodes2, node{ids[i], ids[i].key(), ids[i].canonical(), scs[i], fmt.Sprintf("program %d step %d (derived again after a Close)", pi, i)})
				}
			}
			for i := 0; i < len(nodes2); i++ {
				if nodes2[i].key == victim.key && ptr(nodes2[i].sc) == ptr(victim.sc) {
					c.Violation("closed-scope-returned/"+kind, map[string]interface{}{"why": "deriving an identity again after its scope was closed returned the closed scope object", "where": nodes2[i].where, "identity": victim.id, "case": desc})
				}
				for j := i + 1; j < len(nodes2); j++ {
					a, b := nodes2[i], nodes2[j]
					sameID, samePtr := a.key == b.key, ptr(a.sc) == ptr(b.sc)
					if sameID && !samePtr {
						c.Violation("identity-split/"+kind, map[string]interface{}{"why": "equal prefix and effective tags, but different scope objects (after a Close and re-derivation)", "a": a.where, "b": b.where, "identity": a.id, "closed": victim.id, "case": desc})
					} else if !sameID && samePtr {
						c.Violation("identity-merge/"+kind, map[string]interface{}{"why": "different prefix or tags, but the same scope object (after a Close and re-derivation)", "a": a.where, "b": b.where, "case": desc})
					}
				}
			}
			seen2 := map[uintptr]bool{}
			for _, n := range nodes2 {
				p := ptr(n.sc)
				if seen2[p] || uniq <= 0 {
					continue
				}
				seen2[p] = true
				n.sc.Counter("m").Inc(uniq)
				expected[mon.IdentKey(rc.metricName(n.id, "m"), n.id.Tags)] += uniq
				uniq <<= 1
			}
			tally.VerifReportPass(root)
		}
	})
	var agg map[string]mon.Agg
	if cached {
		_, agg, _ = crec.Snapshot()
	} else {
		_, agg, _ = prec.Snapshot()
	}
	// two identities with different prefixes can still have the same metric name+tags
	// (e.g. prefix "a.m"...): expected is keyed by metric identity, so sums add up.
	for mk, want := range expected {
		if collided[mk] {
			continue
		}
		if got := agg[mk].Sum; got != want {
			c.Violation("wrong-delivery/"+kind, map[string]interface{}{"why": fmt.Sprintf("counter m under %q: delivered %d, recorded %d (bit i = i-th distinct scope object)", mk, got, want), "case": desc})
		}
	}
	for mk, a := range agg {
		if _, ok := expected[mk]; !ok && a.Sum != 0 {
			anyCollision := len(collided) > 0
			if !anyCollision {
				c.Violation("unexpected-delivery/"+kind, map[string]interface{}{"why": fmt.Sprintf("delivery under %q which no derivation produced", mk), "case": desc})
			}
		}
	}
}

func c05KeyFn(c *mon.Ctx, r *mon.Rand) {
	pool := newStrPool(r, true, true, true)
	c.Eval(1)
	k := r.Range(1, 4)
	maps := make([]map[string]string, k)
	for i := range maps {
		maps[i] = pool.tagMap(r, 5)
	}
	prefix := pool.names[r.Intn(len(pool.names))]
	merged := mon.RefOverlay(maps...)
	desc := map[string]interface{}{"prefix": prefix, "maps": maps}
	c.Guard("panic-keyfn", func() interface{} { return desc }, func() {
		want := tally.KeyForPrefixedStringMap(prefix, merged)
		if got := tally.VerifKeyForMaps(prefix, maps...); got != want {
			c.Violation("key-multi-map-differs-from-merged", map[string]interface{}{"case": desc, "multi": got, "merged": want})
		}
		// determinism and independence of insertion/iteration order
		for t := 0; t < 4; t++ {
			keys := make([]string, 0, len(merged))
			for kk := range merged {
				keys = append(keys, kk)
			}
			sort.Strings(keys)
			r.ShuffleStrings(keys)
			fresh := make(map[string]string)
			for _, kk := range keys {
				fresh[kk] = merged[kk]
			}
			if got := tally.KeyForPrefixedStringMap(prefix, fresh); got != want {
				c.Violation("key-not-deterministic", map[string]interface{}{"case": desc, "first": want, "again": got})
			}
		}
		if a, b := tally.KeyForStringMap(merged), tally.KeyForPrefixedStringMap("", merged); a != b {
			c.Violation("key-stringmap-differs", map[string]interface{}{"case": desc, "KeyForStringMap": a, "KeyForPrefixedStringMap": b})
		}
		// the documented format, for inputs without delimiter characters
		id := ident{Prefix: prefix, Tags: merged}
		if !id.hasDelim() {
			if want != id.canonical() {
				c.Violation("key-format", map[string]interface{}{"case": desc, "got": want, "documented": id.canonical()})
			}
		}
	})
	c.Distinct(mon.Hash64(prefix, fmt.Sprint(maps)))
}

// c05SnapshotVandal: what a test scope's snapshot hands out belongs to the
// caller. Rewriting the tag maps of snapshot entries (so that one scope's tags
// read like its sibling's) must leave the identities of the live scopes alone:
// the same derivations still return the same, distinct scopes, and what is
// recorded afterwards shows up under each scope's own tags.
func c05SnapshotVandal(c *mon.Ctx, r *mon.Rand) {
	v1, v2 := "v"+r.Ident(3), "w"+r.Ident(3)
	ts := vNewTest(r.Pick("", "p"), nil, uint(r.Range(0, 3)))
	desc := map[string]interface{}{"scenario": "snapshot tag maps rewritten by the caller", "values": []string{v1, v2}}
	c.Eval(1)
	c.Guard("panic-snapshot-vandal", func() interface{} { return desc }, func() {
		a := ts.Tagged(map[string]string{"k": v1})
		b := ts.Tagged(map[string]string{"k": v2})
		a.Counter("m").Inc(1)
		b.Counter("m").Inc(2)
		a.Gauge("g").Update(1)
		// the same metric name on the test scope itself and on a subscope: two
		// entries, each under its own full name
		ts.Gauge("sg").Update(8)
		ts.SubScope("sa").Gauge("sg").Update(7)
		gotG := map[string]float64{}
		for _, gs := range ts.Snapshot().Gauges() {
			gotG[gs.Name()] = gs.Value()
		}
		pfx := ""
		for name := range gotG {
			if strings.HasSuffix(name, "sa.sg") {
				pfx = strings.TrimSuffix(name, "sa.sg")
			}
		}
		if gotG[pfx+"sg"] != 8 || gotG[pfx+"sa.sg"] != 7 {
			c.Violation("wrong-snapshot-name", map[string]interface{}{"why": fmt.Sprintf("gauge sg was updated to 8 on the test scope and to 7 on its subscope sa; the snapshot's gauges are %v", gotG), "case": desc})
		}
		snap := ts.Snapshot()
		for _, cs := range snap.Counters() {
			for k := range cs.Tags() {
				cs.Tags()[k] = v2
			}
			cs.Tags()["added"] = "x"
		}
		for _, gs := range snap.Gauges() {
			for k := range gs.Tags() {
				gs.Tags()[k] = v2
			}
		}
		a2 := ts.Tagged(map[string]string{"k": v1})
		b2 := ts.Tagged(map[string]string{"k": v2})
		if a2 != a || b2 != b || a == b {
			c.Violation("identity-changed-by-snapshot-edit", map[string]interface{}{"why": "after the caller rewrote the tag maps of snapshot entries, deriving the same tag sets again no longer returns the same two distinct scopes", "case": desc})
		}
		a2.Counter("m").Inc(10)
		b2.Counter("m").Inc(20)
		got := map[string]int64{}
		for _, cs := range ts.Snapshot().Counters() {
			got[fmt.Sprint(cs.Tags())] += cs.Value()
		}
		wa, wb := fmt.Sprint(map[string]string{"k": v1}), fmt.Sprint(map[string]string{"k": v2})
		if got[wa] != 11 || got[wb] != 22 || len(got) != 2 {
			c.Violation("identity-changed-by-snapshot-edit", map[string]interface{}{"why": fmt.Sprintf("after the caller rewrote the tag maps of an earlier snapshot, a new snapshot shows counters per tag set %v, want %s:11 and %s:22", got, wa, wb), "case": desc})
		}
	})
	c.Event("snapshot-edits-checked", 1)
}

// c05Alphabets: sanitize options whose key, value and name alphabets differ
// (as the M3 defaults do: '.' and '-' are fine in values, not in keys). Tag
// values that are valid as VALUES pass unchanged, so {host:"a.b"} and
// {host:"a_b"} (and "a-b") are three identities: three scopes, three
// deliveries under their own tags.
func c05Alphabets(c *mon.Ctx, r *mon.Rand) {
	so := tally.SanitizeOptions{
		NameCharacters:       tally.ValidCharacters{Ranges: tally.AlphanumericRange, Characters: tally.UnderscoreDashDotCharacters},
		KeyCharacters:        tally.ValidCharacters{Ranges: tally.AlphanumericRange, Characters: tally.UnderscoreCharacters},
		ValueCharacters:      tally.ValidCharacters{Ranges: tally.AlphanumericRange, Characters: []rune{'_', '-', '.', ':'}},
		ReplacementCharacter: '_',
	}
	cached := r.Bool()
	opts := tally.ScopeOptions{SanitizeOptions: &so, OmitCardinalityMetrics: true}
	var rec *mon.Recorder
	if cached {
		cr := mon.NewCachedRec(false)
		rec, opts.CachedReporter = cr.Recorder, cr
	} else {
		pr := mon.NewPlainRec(false)
		rec, opts.Reporter = pr.Recorder, pr
	}
	root, _ := vNewRoot(opts, 0, uint(r.Range(0, 3)))
	base := r.Ident(3)
	vals := []string{base + ".b", base + "_b", base + "-b", base + ":b"} // every listed character, the last one of the list included
	key := r.Pick("host", "k_1")
	desc := map[string]interface{}{"scenario": "value alphabet wider than key alphabet", "values": vals, "key": key, "cached": cached}
	c.Eval(1)
	var scopes []tally.Scope
	c.Guard("panic-alphabets", func() interface{} { return desc }, func() {
		for i, v := range vals {
			sc := root.Tagged(map[string]string{key: v})
			scopes = append(scopes, sc)
			sc.Counter("m").Inc(int64(1) << uint(i))
		}
		tally.VerifReportPass(root)
	})
	for i := range scopes {
		for j := i + 1; j < len(scopes); j++ {
			if scopes[i] == scopes[j] {
				c.Violation("identity-merge/alphabets", map[string]interface{}{"why": fmt.Sprintf("Tagged({%s:%q}) and Tagged({%s:%q}) returned one scope; both values are valid tag values under the configured options", key, vals[i], key, vals[j]), "case": desc})
			}
		}
	}
	_, agg, _ := rec.Snapshot()
	for i, v := range vals {
		if got := agg[mon.IdentKey("m", map[string]string{key: v})].Sum; got != int64(1)<<uint(i) {
			c.Violation("delivered-under-other-identity/alphabets", map[string]interface{}{"why": fmt.Sprintf("counter of the scope tagged {%s:%q}: %d delivered under these tags, %d recorded", key, v, got, int64(1)<<uint(i)), "case": desc})
		}
	}
	c.Event("alphabet-cases", 1)
}

// c05ProcsChange: the number of processors the runtime may use changes
// between two derivations of the same identities (a container quota applied
// after package-level scopes were built): the second derivation is handed the
// objects of the first, and counters reached both ways are one counter.
func c05ProcsChange(c *mon.Ctx, r *mon.Rand) {
	pr := mon.NewPlainRec(false)
	shards := uint(0)
	if r.Bool() {
		shards = uint(r.Range(3, 64))
	}
	root, _ := vNewRoot(tally.ScopeOptions{Reporter: pr, OmitCardinalityMetrics: true}, 0, shards)
	n := r.Range(20, 60)
	first := make([]tally.Scope, n)
	for k := range first {
		first[k] = root.Tagged(map[string]string{"k": fmt.Sprint(k)})
		first[k].Counter("c").Inc(1)
	}
	before := runtime.GOMAXPROCS(0)
	to := r.Range(1, 2)
	runtime.GOMAXPROCS(to)
	bad := 0
	for k := range first {
		again := root.Tagged(map[string]string{"k": fmt.Sprint(k)})
		again.Counter("c").Inc(1)
		if ptrOf(again) != ptrOf(first[k]) {
			bad++
		}
	}
	runtime.GOMAXPROCS(before)
	desc := map[string]interface{}{"shards": shards, "gomaxprocs_before": before, "gomaxprocs_during_second_derivation": to, "identities": n}
	if bad > 0 {
		c.Violation("same-identity-not-shared/after-gomaxprocs-change", map[string]interface{}{"why": fmt.Sprintf("%d of %d identities derived again after GOMAXPROCS went from %d to %d were handed another object than the first time", bad, n, before, to), "case": desc})
	}
	tally.VerifReportPass(root)
	_, agg, _ := pr.Snapshot()
	for k := range first {
		if a := agg[mon.IdentKey("c", map[string]string{"k": fmt.Sprint(k)})]; a.Sum != 2 || a.N != 1 {
			c.Violation("same-identity-not-shared/after-gomaxprocs-change", map[string]interface{}{"why": fmt.Sprintf("counter c{k=%d}: %d deliveries adding up to %d in one pass; it was incremented once through each derivation (one counter, one delivery of 2)", k, a.N, a.Sum), "case": desc})
			break
		}
	}
	c.Event("identities-derived-again-after-a-gomaxprocs-change", int64(n))
}

// c05StaleHandles: metrics of scope A are kept by the caller; A is closed and
// dropped by a pass; a scope B with another identity then creates metrics of
// the same shape (same kinds, same number of buckets); the caller goes on
// recording through A's old handles. Whatever happens to those late records,
// nothing of them may arrive under B's identity: B's metrics show exactly what
// was recorded on B.
func c05StaleHandles(c *mon.Ctx, r *mon.Rand) {
	cached := r.Bool()
	var rec *mon.Recorder
	opts := tally.ScopeOptions{OmitCardinalityMetrics: true}
	if cached {
		cr := mon.NewCachedRec(false)
		rec, opts.CachedReporter = cr.Recorder, cr
	} else {
		pr := mon.NewPlainRec(false)
		rec, opts.Reporter = pr.Recorder, pr
	}
	root, _ := vNewRoot(opts, 0, uint(r.Range(0, 3)))
	nb := r.Range(1, 6)
	spec := make(tally.ValueBuckets, nb)
	for k := range spec {
		spec[k] = float64(10 * (k + 1))
	}
	rounds := r.Range(1, 4)
	desc := map[string]interface{}{"cached": cached, "bounds": nb, "rounds": rounds}
	var staleH []tally.Histogram
	var staleC []tally.Counter
	var staleG []tally.Gauge
	for k := 0; k < rounds; k++ {
		a := root.Tagged(map[string]string{"scope": fmt.Sprintf("a%d", k)})
		staleH = append(staleH, a.Histogram("h", spec))
		staleC = append(staleC, a.Counter("c"))
		staleG = append(staleG, a.Gauge("g"))
		staleH[k].RecordValue(5)
		staleC[k].Inc(1)
		a.(io.Closer).Close()
		tally.VerifReportPass(root) // reports A for the last time and drops it
		bt := map[string]string{"scope": fmt.Sprintf("b%d", k)}
		b := root.Tagged(bt)
		bh, bc, bg := b.Histogram("h", spec), b.Counter("c"), b.Gauge("g")
		bh.RecordValue(5)
		bc.Inc(1)
		bg.Update(1)
		for _, h := range staleH {
			h.RecordValue(5)
			h.RecordValue(float64(10*nb) + 1)
		}
		for _, x := range staleC {
			x.Inc(100)
		}
		for _, g := range staleG {
			g.Update(777)
		}
		tally.VerifReportPass(root)
		_, agg, _ := rec.Snapshot()
		var hsum int64
		for _, p := range mon.RefPairsV(spec) {
			hsum += agg[mon.BucketKeyV("h", bt, p.Lo, p.Hi)].Sum
		}
		if hsum != 1 || agg[mon.IdentKey("c", bt)].Sum != 1 || agg[mon.IdentKey("g", bt)].LastBits != math.Float64bits(1) {
			c.Violation("delivered-under-other-identity/stale-handles", map[string]interface{}{"why": fmt.Sprintf("scope %v recorded one histogram sample, one increment and the gauge value 1; delivered under its identity: %d samples, counter total %d, gauge %v - while handles of closed and dropped scopes of other identities were still being recorded on", bt, hsum, agg[mon.IdentKey("c", bt)].Sum, math.Float64frombits(agg[mon.IdentKey("g", bt)].LastBits)), "case": desc})
			return
		}
	}
	c.Event("stale-handle-rounds", int64(rounds))
}
