// Command vh is the child process of /verif/check: one subcommand per
// property, each running one batch of monitored executions of the real tally
// code and writing a JSON result.
package main

import (
	"flag"
	"fmt"
	"os"
	"sort"
	"strings"

	"verifharness/mon"
)

type checkFn func(c *mon.Ctx)

var checks = map[string]checkFn{}

// sub-modes per property (e.g. "tokens", "stress"); selected with -mode.
func register(id string, f checkFn) { checks[id] = f }

var (
	flagMode string
)

func main() {
	if len(os.Args) < 2 {
		usage()
	}
	prop := strings.ToUpper(os.Args[1])
	fs := flag.NewFlagSet("vh", flag.ExitOnError)
	seed := fs.Uint64("seed", 1, "VERIF_SEED")
	batch := fs.Int("batch", 0, "batch index")
	nbatch := fs.Int("nbatch", 1, "number of batches")
	tier := fs.String("tier", "quick", "quick|thorough")
	n := fs.Int("n", 100, "cases in this batch")
	only := fs.Int("only", -1, "run only this case (replay)")
	out := fs.String("out", "", "result file")
	logp := fs.String("log", "", "current-case log file")
	verbose := fs.Bool("v", false, "verbose")
	fs.StringVar(&flagMode, "mode", "", "sub-mode of the check")
	phase := fs.String("phase", "", "plan phase (salts the case generator)")
	fs.Parse(os.Args[2:])

	f, ok := checks[prop]
	if !ok {
		usage()
	}
	c := mon.NewCtx(prop, *seed, *batch, *nbatch, *tier, *n)
	c.Only = *only
	c.OutPath = *out
	c.LogPath = *logp
	c.Verbose = *verbose
	c.Race = raceEnabled
	c.Phase = *phase
	if flagMode == "stack" {
		runStack(c)
	} else {
		f(c)
	}
	if err := c.Finish(); err != nil {
		fmt.Fprintln(os.Stderr, "finish:", err)
		os.Exit(3)
	}
	if c.NViolations() > 0 {
		os.Exit(1)
	}
}

func usage() {
	ids := make([]string, 0, len(checks))
	for k := range checks {
		ids = append(ids, k)
	}
	sort.Strings(ids)
	fmt.Fprintf(os.Stderr, "usage: vh <%s> [flags]\n", strings.Join(ids, "|"))
	os.Exit(3)
}
