package main

import (
	"fmt"
	"io"
	"math"
	"runtime"
	"sync"
	"sync/atomic"
	"time"

	tally "github.com/uber-go/tally/v4"

	"verifharness/mon"
)

func init() { register("C02", runC02) }

func runC02(c *mon.Ctx) {
	switch flagMode {
	case "lifecycle":
		c.Cases(func(i int, r *mon.Rand) { lifecycleCase(c, r, "C02") })
	case "stress":
		c.Cases(func(i int, r *mon.Rand) {
			c02Stress(c, r)
			c02PendingRace(c, r.Fork(77))
			if c.Tier == "thorough" && c.Batch == 0 && i == 0 && !c.Race {
				c02ManyUpdates(c)
			}
		})
	default:
		c.Cases(func(i int, r *mon.Rand) { c02Token(c, r) })
	}
}

// uniqueGaugeBits returns the k-th distinct payload of a hostile family.
func uniqueGaugeBits(r *mon.Rand, k int) uint64 {
	switch r.Intn(7) {
	case 0:
		return 0x7ff8000000000000 | uint64(k+1) // quiet NaN, distinct payload
	case 1:
		return 0x7ff0000000000000 | uint64(k+1) // signalling NaN, distinct payload
	case 2:
		return uint64(k + 1) // subnormals
	case 3:
		if k%2 == 0 {
			return math.Float64bits(math.Inf(1))
		}
		return math.Float64bits(math.Inf(-1))
	case 4:
		return math.Float64bits(math.Copysign(0, -1))
	case 5:
		return math.Float64bits(float64(k) + 0.5)
	default:
		return 0 // +0: the gauge's initial value
	}
}

func c02Token(c *mon.Ctx, r *mon.Rand) {
	cached := r.Bool()
	var rec *mon.Recorder
	opts := tally.ScopeOptions{OmitCardinalityMetrics: true}
	if cached {
		cr := mon.NewCachedRec(true)
		rec = cr.Recorder
		opts.CachedReporter = cr
	} else {
		pr := mon.NewPlainRec(true)
		rec = pr.Recorder
		opts.Reporter = pr
	}
	root, _ := vNewRoot(opts, 0, 1)
	var sc tally.Scope = root
	if r.Bool() {
		sc = root.SubScope("s")
	}
	g := sc.Gauge("g")
	nUpd := r.Range(1, 4)
	upd := make([]uint64, nUpd)
	for i := range upd {
		upd[i] = uniqueGaugeBits(r, i)
	}
	nRep := r.Range(2, 3)
	repOps := make([]int, nRep)
	for i := range repOps {
		repOps[i] = r.Range(1, 3)
	}
	ts := mon.NewTokenSched(r.Fork(5))
	ts.Sticky = []int{0, 30, 60, 85}[r.Intn(4)]
	fns := []func(){func() {
		for i, b := range upd {
			ts.Yield()
			rec.MarkV("update", i, int64(b))
			g.Update(math.Float64frombits(b))
		}
	}}
	for _, n := range repOps {
		n := n
		fns = append(fns, func() {
			for k := 0; k < n; k++ {
				ts.Yield()
				tally.VerifReportScope(sc)
			}
		})
	}
	tally.VerifSetHook(ts.Hook)
	ts.Run(fns)
	tally.VerifSetHook(nil)
	rec.Mark("quiescent", 0)
	tally.VerifReportPass(root)
	afterFinal := rec.Mark("after-first-pass", 0)
	tally.VerifReportPass(root)

	c.Eval(1)
	trace := ts.TraceString()
	if ts.Switches() > 0 {
		c.Distinct(mon.Hash64(trace, fmt.Sprint(upd, cached)))
		c.Class("schedules-with-a-switch-inside-a-library-window", 1)
	}
	desc := func() interface{} {
		return map[string]interface{}{"cached": cached, "updates_bits": fmt.Sprintf("%#x", upd), "report_ops": repOps, "sticky": ts.Sticky, "trace": trace}
	}
	if c.WantSample() {
		c.Sample(desc())
	}
	log, _, _ := rec.Snapshot()
	started := map[uint64]bool{}
	nStarted, nDeliv := 0, 0
	var lastDelivered uint64
	haveDelivery := false
	for _, ev := range log {
		switch ev.Kind {
		case mon.EvMarker:
			if ev.Marker == "update" {
				started[uint64(ev.I)] = true
				nStarted++
			}
		case mon.EvGauge:
			nDeliv++
			c.Event("deliveries", 1)
			if !started[ev.F] {
				c.Violation("invented-or-early-value", map[string]interface{}{"why": fmt.Sprintf("delivered bits %#x were not passed to Update before this delivery", ev.F), "case": desc()})
			}
			if ev.Seq > afterFinal {
				c.Violation("redelivery-without-update", map[string]interface{}{"why": fmt.Sprintf("a second pass after quiescence delivered %#x again", ev.F), "case": desc()})
			}
			if ev.Seq < afterFinal {
				lastDelivered, haveDelivery = ev.F, true
			}
			if nDeliv > nStarted {
				c.Violation("more-deliveries-than-updates", map[string]interface{}{"why": fmt.Sprintf("%d deliveries after %d updates", nDeliv, nStarted), "case": desc()})
			}
		}
	}
	if !haveDelivery || lastDelivered != upd[len(upd)-1] {
		c.Violation("stale-value", map[string]interface{}{"why": fmt.Sprintf("after updates stopped and one pass ran, the reporter's most recent value is %#x (delivered=%v), the last update was %#x", lastDelivered, haveDelivery, upd[len(upd)-1]), "case": desc()})
	}
}

func c02Stress(c *mon.Ctx, r *mon.Rand) {
	cached := r.Bool()
	var rec *mon.Recorder
	opts := tally.ScopeOptions{OmitCardinalityMetrics: true}
	if cached {
		cr := mon.NewCachedRec(false)
		rec = cr.Recorder
		opts.CachedReporter = cr
	} else {
		pr := mon.NewPlainRec(false)
		rec = pr.Recorder
		opts.Reporter = pr
	}
	// a third of the runs configure a sanitizer and ask for every other gauge
	// under a spelling it rewrites: delivered under the sanitized name only
	withSan := r.Fork(4242).Chance(1, 3)
	if withSan {
		opts.SanitizeOptions = &tally.SanitizeOptions{
			NameCharacters:       tally.ValidCharacters{Ranges: tally.AlphanumericRange, Characters: tally.UnderscoreDashDotCharacters},
			KeyCharacters:        tally.ValidCharacters{Ranges: tally.AlphanumericRange, Characters: tally.UnderscoreCharacters},
			ValueCharacters:      tally.ValidCharacters{Ranges: tally.AlphanumericRange, Characters: tally.UnderscoreCharacters},
			ReplacementCharacter: '_',
		}
	}
	creators := r.Bool() // set up before the root exists: its ticker goroutine reads rec.Delay
	// half of the runs: a wide registry (40 subscopes over 4-16 shards), sixteen of
	// the gauges on the root scope itself, and a reporter whose gauge writes are
	// slow now and then - the order in which one pass delivers must still be the
	// order in which it read
	wide := r.Bool()
	{
		var dn, gn uint64
		rec.Delay = func(k mon.EvKind) {
			if creators && k == mon.EvAllocGauge {
				if n := atomic.AddUint64(&dn, 1); n%3 == 0 {
					time.Sleep(time.Duration(50+n%250) * time.Microsecond)
				}
			}
			if wide && k == mon.EvGauge {
				if n := atomic.AddUint64(&gn, 1); n%3 == 0 {
					time.Sleep(time.Duration(20+n%100) * time.Microsecond)
				}
			}
		}
	}
	interval := time.Duration(r.Range(50, 200)) * time.Microsecond
	prof := mon.RandomProfile(r, []int{tally.VerifGaugeBetweenStores, tally.VerifGaugeSwapped, tally.VerifRegScopeReported, tally.VerifPassLocked}, r.Intn(2))
	inj := mon.NewDelayInjector(r.U64(), prof, true)
	inj.Install()
	defer inj.Uninstall()
	shards := uint(r.Range(0, 3))
	nSub := 5
	if wide {
		shards, nSub = uint(r.Range(4, 16)), 40
	}
	root, closer := vNewRoot(opts, interval, shards)
	const G = 64
	nUpd := 4
	gauges := make([]tally.Gauge, G)
	names := make([]string, G)
	if wide {
		// the root's gauges under test come after 250-260 gauges that are never
		// updated (positions around 256 in the scope's list of gauges)
		for k, n := 0, r.Range(250, 260); k < n; k++ {
			root.Gauge(fmt.Sprintf("pad%d", k))
		}
	}
	for i := range gauges {
		ask, clean := fmt.Sprintf("g%d", i), fmt.Sprintf("g%d", i)
		if withSan && i%2 == 1 {
			ask, clean = fmt.Sprintf("g:%d", i), fmt.Sprintf("g_%d", i)
		}
		if wide && i < 16 {
			gauges[i] = root.Gauge(ask)
			names[i] = clean
			continue
		}
		sc := root.SubScope(fmt.Sprintf("s%d", i%nSub))
		gauges[i] = sc.Gauge(ask)
		if withSan && i%2 == 1 {
			sc.Gauge(fmt.Sprintf("g %d", i)) // and once more under another spelling
		}
		names[i] = fmt.Sprintf("s%d.%s", i%nSub, clean)
	}
	desc := map[string]interface{}{"cached": cached, "interval_us": interval.Microseconds(), "gauges": G, "concurrent_first_use_of_other_gauges": creators, "wide_registry_root_gauges_slow_writes": wide, "shards": shards, "sanitizer_rewriting_gauge_names": withSan}
	c.LogCase(fmt.Sprint(desc))
	epochs := 60
	last := make([]uint64, G)
	updates := make([]int64, G)
	var seq uint64
	for e := 0; e < epochs; e++ {
		var stop int32
		var wgU, wgR sync.WaitGroup
		for u := 0; u < nUpd; u++ {
			wgU.Add(1)
			ur := r.Fork(uint64(e*100 + u))
			go func(u int) {
				defer wgU.Done()
				n := ur.Range(1, 30)
				for k := 0; k < n; k++ {
					i := u + nUpd*ur.Intn(G/nUpd) // gauges owned by updater u
					v := atomic.AddUint64(&seq, 1)
					bits := math.Float64bits(float64(v))
					if v%7 == 0 {
						bits = 0x7ff8000000000000 | v // NaN with unique payload
					}
					last[i] = bits
					updates[i]++
					gauges[i].Update(math.Float64frombits(bits))
					if wide {
						// spread the updates over several passes
						time.Sleep(time.Duration(ur.Range(1, 40)) * time.Microsecond)
					}
				}
			}(u)
		}
		for p := 0; p < 3; p++ {
			wgR.Add(1)
			go func() {
				defer wgR.Done()
				for atomic.LoadInt32(&stop) == 0 {
					tally.VerifReportPass(root)
				}
			}()
		}
		// half of the runs: another goroutine keeps making the first use of new
		// gauges in the same scopes (a slow AllocateGauge holds the scope's gauge
		// lock) - also while the deciding pass runs
		var stopCreate int32
		var wgC sync.WaitGroup
		if creators {
			wgC.Add(1)
			go func(e int) {
				defer wgC.Done()
				for k := 0; atomic.LoadInt32(&stopCreate) == 0 && k < 400; k++ {
					root.SubScope(fmt.Sprintf("s%d", k%5)).Gauge(fmt.Sprintf("new-e%d-%d", e, k))
				}
			}(e)
		}
		// a second requester of the gauges the creator goroutine makes the first
		// use of (whoever comes first allocates; a slow allocation may be under
		// way while the other one updates): the value it sets is what is delivered
		chased := map[string]uint64{}
		if creators {
			wgU.Add(1)
			go func(e int) {
				defer wgU.Done()
				for k := 0; k < 12; k++ {
					v := float64(1000000 + 1000*e + k)
					root.SubScope(fmt.Sprintf("s%d", k%5)).Gauge(fmt.Sprintf("new-e%d-%d", e, k)).Update(v)
					chased[fmt.Sprintf("s%d.new-e%d-%d", k%5, e, k)] = math.Float64bits(v)
					runtime.Gosched()
				}
			}(e)
		}
		// two goroutines that close their own subscope after every update and ask
		// for it again at once: the last update is what the reporter ends on
		reLast := make([]uint64, 2)
		for w := 0; w < 2; w++ {
			wgU.Add(1)
			go func(w int) {
				defer wgU.Done()
				for k := 0; k < 15; k++ {
					sc := root.SubScope(fmt.Sprintf("re%d", w))
					v := float64(2000000 + 100000*w + 100*e + k)
					sc.Gauge("g").Update(v)
					reLast[w] = math.Float64bits(v)
					if k < 14 {
						sc.(io.Closer).Close()
					}
					runtime.Gosched()
				}
			}(w)
		}
		wgU.Wait()
		atomic.StoreInt32(&stop, 1)
		wgR.Wait()
		tally.VerifReportPass(root)
		atomic.StoreInt32(&stopCreate, 1)
		wgC.Wait()
		for name, want := range chased {
			if a := rec.GetAgg(mon.IdentKey(name, nil)); a.LastBits != want {
				c.Violation("stale-value", map[string]interface{}{"why": fmt.Sprintf("epoch %d: gauge %s, first used by two goroutines at about the same time (slow allocation) and updated by one of them: most recent delivered bits %#x, the update %#x", e, name, a.LastBits, want), "case": desc})
				break
			}
		}
		for w := range reLast {
			if a := rec.GetAgg(mon.IdentKey(fmt.Sprintf("re%d.g", w), nil)); a.LastBits != reLast[w] {
				c.Violation("stale-value", map[string]interface{}{"why": fmt.Sprintf("epoch %d: gauge re%d.g of a subscope that is closed after every update and requested again: most recent delivered bits %#x, last update %#x", e, w, a.LastBits, reLast[w]), "case": desc})
			}
		}
		for i := 0; i < G; i++ {
			if updates[i] == 0 {
				continue
			}
			a := rec.GetAgg(mon.IdentKey(names[i], nil))
			c.Event("gauge-epoch-checks", 1)
			if a.LastBits != last[i] {
				c.Violation("stale-value", map[string]interface{}{"why": fmt.Sprintf("epoch %d: %s most recent delivered bits %#x, last update %#x", e, names[i], a.LastBits, last[i]), "case": desc})
			}
			if a.N > updates[i] {
				c.Violation("more-deliveries-than-updates", map[string]interface{}{"why": fmt.Sprintf("%s: %d deliveries for %d updates", names[i], a.N, updates[i]), "case": desc})
			}
		}
	}
	closer.Close()
	c.Eval(1)
	hits, inter, sigs := inj.Stats.Report()
	for _, s := range sigs {
		c.Distinct(mon.Hash64(s))
	}
	mergeStats(c, hits, inter)
	if c.WantSample() {
		s := map[string]interface{}{"config": desc}
		if len(sigs) > 0 {
			s["an_interleaving_signature"] = mon.SigName(sigs[len(sigs)/2])
		}
		c.Sample(s)
	}
}

// lastGaugeRep is a reporter that only remembers the bits of the most recent
// gauge delivery (cheap enough for passes to run back to back).
type lastGaugeRep struct {
	last uint64
	n    int64
}

func (p *lastGaugeRep) ReportCounter(name string, tags map[string]string, value int64) {}
func (p *lastGaugeRep) ReportGauge(name string, tags map[string]string, value float64) {
	atomic.StoreUint64(&p.last, math.Float64bits(value))
	atomic.AddInt64(&p.n, 1)
}
func (p *lastGaugeRep) ReportTimer(name string, tags map[string]string, interval time.Duration) {}
func (p *lastGaugeRep) ReportHistogramValueSamples(name string, tags map[string]string, buckets tally.Buckets, lo, hi float64, samples int64) {
}
func (p *lastGaugeRep) ReportHistogramDurationSamples(name string, tags map[string]string, buckets tally.Buckets, lo, hi time.Duration, samples int64) {
}
func (p *lastGaugeRep) Capabilities() tally.Capabilities { return p }
func (p *lastGaugeRep) Reporting() bool                  { return true }
func (p *lastGaugeRep) Tagging() bool                    { return true }
func (p *lastGaugeRep) Flush()                           {}

// c02PendingRace: an update of a gauge that is already pending races the pass
// that takes the pending value. One gauge, passes back to back from one
// goroutine, and thousands of trials of two updates in a row: two complete
// passes after the second update returned, the most recent delivery must carry
// its value.
func c02PendingRace(c *mon.Ctx, r *mon.Rand) {
	rep := &lastGaugeRep{}
	root, closer := vNewRoot(tally.ScopeOptions{Reporter: rep, OmitCardinalityMetrics: true}, 0, 1)
	g := root.Gauge("g")
	var passes uint64
	var stop int32
	var wg sync.WaitGroup
	wg.Add(1)
	go func() {
		defer wg.Done()
		for atomic.LoadInt32(&stop) == 0 {
			tally.VerifReportPass(root)
			atomic.AddUint64(&passes, 1)
		}
	}()
	trials := 4000
	racing := int64(0)
	for t := 0; t < trials; t++ {
		v1, v2 := float64(2*t+1), float64(2*t+2)
		n0 := atomic.LoadInt64(&rep.n)
		g.Update(v1)
		g.Update(v2)
		p0 := atomic.LoadUint64(&passes)
		for n := 0; atomic.LoadUint64(&passes) < p0+2; n++ {
			if n > 200 {
				runtime.Gosched()
			}
		}
		if atomic.LoadInt64(&rep.n)-n0 >= 2 {
			racing++ // a pass took the first value while the second update was under way or just before it
		}
		if got := atomic.LoadUint64(&rep.last); got != math.Float64bits(v2) {
			c.Violation("stale-value", map[string]interface{}{"why": fmt.Sprintf("trial %d: a gauge was updated to %v and at once to %v; two complete passes after the second update returned the most recent delivery carries %v", t, v1, v2, math.Float64frombits(got))})
			break
		}
	}
	atomic.StoreInt32(&stop, 1)
	wg.Wait()
	closer.Close()
	c.Event("pending-update-trials", int64(trials))
	c.Event("pending-update-trials-with-a-pass-between-or-during-the-two-updates", racing)
}

// c02ManyUpdates (thorough tier, once per run): one gauge is updated 2^31+5
// times between two passes - more often than a 31-bit quantity counts; the
// next pass delivers the last value.
func c02ManyUpdates(c *mon.Ctx) {
	rep := &lastGaugeRep{}
	root, closer := vNewRoot(tally.ScopeOptions{Reporter: rep, OmitCardinalityMetrics: true}, 0, 1)
	g := root.Gauge("g")
	g.Update(-1)
	tally.VerifReportPass(root)
	const n = 1<<31 + 5
	for k := 0; k < n; k++ {
		g.Update(float64(k & 1023))
	}
	want := float64((n - 1) & 1023)
	tally.VerifReportPass(root)
	if got := math.Float64frombits(atomic.LoadUint64(&rep.last)); got != want {
		c.Violation("stale-value", map[string]interface{}{"why": fmt.Sprintf("a gauge was updated %d times between two passes, last to %v; the pass delivered %v (or nothing new)", n, want, got)})
	}
	closer.Close()
	c.Event("gauge-updates-between-two-passes", n)
}
