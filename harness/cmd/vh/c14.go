package main

import (
	"fmt"
	"math"
	"os"
	"runtime"
	"strings"
	"sync"
	"sync/atomic"
	"time"

	tally "github.com/uber-go/tally/v4"
	"github.com/uber-go/tally/v4/m3"

	"verifharness/mon"
)

func init() { register("C14", runC14) }

func runC14(c *mon.Ctx) {
	c.Cases(func(i int, r *mon.Rand) {
		if flagMode == "keepcalling" {
			c14CallersKeepCalling(c, r)
			return
		}
		if flagMode == "tokens" {
			c14Token(c, r)
			return
		}
		c14Life(c, r)
		if i%150 == 0 {
			c14ManyStrings(c, r.Fork(77))
		}
		if i%50 == 0 {
			c14ImmediateClose(c, r.Fork(78))
		}
	})
}

// c14ManyStrings: a long-lived reporter sees far more distinct names and tag
// values than any of its caches and pools was sized for (here 70,000-140,000
// distinct strings from 2-4 goroutines); Allocate, Report, Flush and Close
// must still return.
func c14ManyStrings(c *mon.Ctx, r *mon.Rand) {
	opts := m3.Options{Service: "s", Env: "e", MaxQueueSize: 4096, HostPorts: []string{mon.DeadPort()}}
	if r.Bool() {
		opts.Protocol = m3.Binary
	}
	G := r.Range(2, 4)
	per := r.Range(35000, 45000)
	desc := map[string]interface{}{"scenario": "many distinct strings", "goroutines": G, "allocations_per_goroutine": per}
	c.LogCase(fmt.Sprint(desc))
	rep, err := m3.NewReporter(opts)
	if err != nil {
		c.Inconclusive("NewReporter: " + err.Error())
		return
	}
	c.Eval(1)
	stop := c.Watchdog(120*time.Second, "m3-call-does-not-return", desc)
	defer stop()
	var wg sync.WaitGroup
	for g := 0; g < G; g++ {
		wg.Add(1)
		go func(g int) {
			defer wg.Done()
			c.Guard("panic-m3", func() interface{} { return desc }, func() {
				for i := 0; i < per; i++ {
					v := fmt.Sprintf("v%d-%d", g, i)
					switch i % 3 {
					case 0:
						rep.AllocateCounter("many", map[string]string{"k": v}).ReportCount(1)
					case 1:
						rep.AllocateGauge("n"+v, map[string]string{"k": "v"}).ReportGauge(1)
					default:
						rep.AllocateTimer("many-t", map[string]string{v: "x"}).ReportTimer(time.Millisecond)
					}
				}
			})
		}(g)
	}
	wg.Wait()
	c.Guard("panic-m3", func() interface{} { return desc }, func() {
		rep.AllocateCounter("after", map[string]string{"one": "more"}).ReportCount(1)
		rep.AllocateHistogram("after-h", map[string]string{"one": "more"}, tally.ValueBuckets{1, 2}).ValueBucket(1, 2).ReportSamples(1)
		rep.Flush()
		if err := rep.Close(); err != nil {
			c.Violation("close-error", map[string]interface{}{"why": err.Error(), "case": desc})
		}
	})
	c.Event("distinct-strings-interned", int64(G*per))
	c.Distinct(mon.Hash64("many-strings", fmt.Sprint(G, per, opts.Protocol)))
}

var m3LastCreators atomic.Value // the "created by" lines of the last probe (for witnesses)

// m3Goroutines counts the goroutines that library code started and that are
// still executing library code: the reporter's loops and anything else (the
// harness's own goroutines are created by main.*). A goroutine of NewReporter
// that has left its loop and signalled its wait group (only the closure frame
// is left) is in its last instructions and not counted.
func m3Goroutines() int {
	buf := make([]byte, 1<<20)
	n := runtime.Stack(buf, true)
	var creators []string
	count := 0
	for _, blk := range strings.Split(string(buf[:n]), "\n\n") {
		at := strings.Index(blk, "\ncreated by github.com/uber-go/tally/v4")
		if at < 0 {
			continue
		}
		working := false
		for _, ln := range strings.Split(blk[:at], "\n") {
			if strings.HasPrefix(ln, "github.com/uber-go/tally/v4") && !strings.HasPrefix(ln, "github.com/uber-go/tally/v4/m3.NewReporter.func") {
				working = true
			}
		}
		if working {
			count++
			creators = append(creators, strings.SplitN(blk[at+1:], "\n", 2)[0])
		}
	}
	m3LastCreators.Store(strings.Join(creators, "; "))
	return count
}

func c14Life(c *mon.Ctx, r *mon.Rand) {
	proto := m3.Compact
	if r.Bool() {
		proto = m3.Binary
	}
	dest := []string{"alive", "alive", "dead-port", "closed-mid-run", "two-one-dead"}[r.Intn(5)]
	opts := m3.Options{Service: "s", Env: "e", Protocol: proto, MaxQueueSize: []int{1, 1, 2, 8, 4096}[r.Intn(5)]}
	nProd := r.Range(2, 16)
	nFlush := r.Range(0, 2)
	nClose := r.Range(1, 3)
	perProd := r.Range(5, 200)
	closeEarly := r.Bool() // Close released while producers still run
	prof := mon.RandomProfile(r, []int{tally.VerifM3Entered, tally.VerifM3Checked, tally.VerifM3CloseCAS, tally.VerifM3CloseDrained, tally.VerifM3CloseDonech, tally.VerifUDPFlushed}, r.Intn(3))
	inj := mon.NewDelayInjector(r.U64(), prof, false)
	desc := map[string]interface{}{"protocol": protoName(proto), "destination": dest, "queue": opts.MaxQueueSize, "producers": nProd, "flushers": nFlush,
		"close_callers": nClose, "calls_per_producer": perProd, "close_while_producing": closeEarly}
	c.LogCase(fmt.Sprint(desc))
	before := m3Goroutines()
	nSinks := 1
	switch dest {
	case "dead-port":
		nSinks = 0
		opts.HostPorts = []string{mon.DeadPort()}
	case "two-one-dead":
		opts.HostPorts = []string{mon.DeadPort()}
	}
	// a quarter of the lifetimes: a packet limit of 1,500-2,500 bytes and one
	// metric whose name alone is longer than that (it can only travel alone)
	oversize := r.Chance(1, 4)
	if oversize {
		opts.MaxPacketSizeBytes = int32(r.Range(1500, 2500))
		desc["max_packet"] = opts.MaxPacketSizeBytes
		desc["a_metric_larger_than_a_packet"] = true
	}
	m3ViaConfiguration = r.Chance(1, 6) // build the reporter through m3.Configuration where the options allow it
	defer func() { m3ViaConfiguration = false }()
	env, err := newM3EnvPorts(nSinks, opts, inj.Hook, dest == "closed-mid-run")
	if err != nil {
		c.Inconclusive("NewReporter: " + err.Error())
		return
	}
	c.Eval(1)
	c.Class("destination-"+dest, 1)
	bad := func(sig, why string) { c.Violation(sig, map[string]interface{}{"why": why, "case": desc}) }
	rep := env.Rep
	// handles shared by all producers, incl. one histogram bucket handle
	cnt := rep.AllocateCounter("c", map[string]string{"a": "b"})
	g := rep.AllocateGauge("g", nil)
	tm := rep.AllocateTimer("t", map[string]string{"x": "y"})
	hv := rep.AllocateHistogram("h", map[string]string{"k": "v"}, tally.ValueBuckets{1, 2, 3})
	sharedBucket := hv.ValueBucket(1, 2)
	hd := rep.AllocateHistogram("hd", nil, tally.DurationBuckets{time.Millisecond, time.Second})
	sharedDBucket := hd.DurationBucket(time.Millisecond, time.Second)
	var big tally.CachedCount
	if oversize {
		big = rep.AllocateCounter(strings.Repeat("n", 3000), map[string]string{"big": "1"})
	}

	var wg sync.WaitGroup
	startClose := make(chan struct{})
	var startOnce sync.Once
	release := func() { startOnce.Do(func() { close(startClose) }) }
	var produced int64
	var closedFlag int32
	for p := 0; p < nProd; p++ {
		wg.Add(1)
		pr := r.Fork(uint64(p + 1))
		go func(p int) {
			defer wg.Done()
			if p == 0 {
				defer release()
			}
			c.Guard("panic-m3", func() interface{} { return desc }, func() {
				for i := 0; i < perProd; i++ {
					switch pr.Intn(8) {
					case 0:
						cnt.ReportCount(int64(i))
					case 1:
						g.ReportGauge(float64(i))
					case 2:
						tm.ReportTimer(time.Duration(i))
					case 3, 4:
						sharedBucket.ReportSamples(int64(p*100000 + i))
					case 5:
						sharedDBucket.ReportSamples(int64(p*100000 + i))
					case 6:
						if pr.Bool() {
							// histograms allocated by several producers at once with one and the
							// same tag set (served from the reporter's tag cache)
							// (0-16 tags: the two bucket tags are added to tag lists shorter
							// than, as long as and longer than the pooled scratch slices)
							ht := map[string]string{}
							for k, n := 0, pr.Intn(6)*3+pr.Intn(2); k < n; k++ {
								ht[[]string{"shared", "zone", "t2", "t3", "t4", "t5", "t6", "t7", "t8", "t9", "t10", "t11", "t12", "t13", "t14", "t15"}[k]] = "z"
							}
							hh := rep.AllocateHistogram(fmt.Sprintf("hdyn%d", pr.Intn(6)), ht, tally.ValueBuckets{1, 2, 3})
							hh.ValueBucket(1, 2).ReportSamples(1)
						} else if pr.Chance(1, 4) {
							// histograms with 62-65, 127-129 and 255-257 bounds (one more
							// bucket than bounds: tables sized by a power of two)
							n := []int{62, 63, 64, 65, 127, 128, 129, 255, 256, 257}[pr.Intn(10)]
							hb := rep.AllocateHistogram(fmt.Sprintf("hbig%d", n), map[string]string{"n": fmt.Sprint(n)}, tally.MustMakeLinearValueBuckets(0, 1, n))
							hb.ValueBucket(float64(n-2), float64(n-1)).ReportSamples(1)
							hb.ValueBucket(float64(n-1), math.MaxFloat64).ReportSamples(1)
						} else {
							rep.AllocateCounter(fmt.Sprintf("dyn%d", pr.Intn(20)), map[string]string{"p": fmt.Sprint(p)}).ReportCount(1)
						}
					default:
						switch {
						case big != nil && pr.Chance(1, 3):
							big.ReportCount(1)
						case pr.Chance(1, 4):
							// lookups no allocation prepared: bounds beyond the last one, not a
							// number, of the other kind - a handle that can be reported on
							switch pr.Intn(6) {
							case 0:
								hv.ValueBucket(3, math.Inf(1)).ReportSamples(1)
							case 1:
								hv.ValueBucket(0, math.NaN()).ReportSamples(1)
							case 2:
								hv.ValueBucket(3, math.MaxFloat64).ReportSamples(1)
							case 3:
								hd.ValueBucket(1, 2).ReportSamples(1)
							case 4:
								hv.DurationBucket(time.Millisecond, time.Second).ReportSamples(1)
							default:
								hd.DurationBucket(time.Second, time.Duration(math.MaxInt64)).ReportSamples(1)
							}
						default:
							hv.ValueBucket(2, 3).ReportSamples(1)
						}
					}
					atomic.AddInt64(&produced, 1)
					if closeEarly && i == perProd/2 && p == 0 {
						release()
					}
				}
			})
		}(p)
	}
	for f := 0; f < nFlush; f++ {
		wg.Add(1)
		go func() {
			defer wg.Done()
			c.Guard("panic-m3", func() interface{} { return desc }, func() {
				for i := 0; i < 20; i++ {
					rep.Flush()
					runtime.Gosched()
				}
			})
		}()
	}
	if dest == "closed-mid-run" {
		wg.Add(1)
		go func() {
			defer wg.Done()
			time.Sleep(time.Duration(r.Range(0, 500)) * time.Microsecond)
			env.Sinks[0].Close()
		}()
	}
	closeErrs := make([]error, nClose)
	var closeReturned int64
	var aliveAtReturn int32
	var wgC sync.WaitGroup
	for k := 0; k < nClose; k++ {
		wgC.Add(1)
		go func(k int) {
			defer wgC.Done()
			c.Guard("panic-m3-close", func() interface{} { return desc }, func() {
				if closeEarly {
					<-startClose
				} else {
					wg.Wait()
				}
				closeErrs[k] = rep.Close()
				s := mon.NextSeq()
				if closeErrs[k] == nil {
					atomic.StoreInt64(&closeReturned, s)
					atomic.StoreInt32(&closedFlag, 1)
					if m3Goroutines() > before {
						atomic.AddInt32(&aliveAtReturn, 1)
					}
				}
			})
		}(k)
	}
	// bounded-progress form of "Close returns": once every producer has
	// returned, Close must return; 60 s is > 10000x the normal latency.
	closersDone := make(chan struct{})
	producersDone := make(chan struct{})
	go func() {
		wg.Wait()
		close(producersDone)
	}()
	go func() {
		dump := func() string {
			buf := make([]byte, 1<<20)
			n := runtime.Stack(buf, true)
			return string(buf[:n])
		}
		// bounded-progress form of "completes without deadlock": a Report/Flush
		// call normally takes microseconds (milliseconds with a full queue)
		select {
		case <-producersDone:
		case <-time.After(60 * time.Second):
			bad("m3-call-does-not-return", "Report/Flush callers are still blocked after 60s; goroutines:\n"+dump())
			c.Finish()
			os.Exit(1)
		}
		select {
		case <-closersDone:
		case <-time.After(60 * time.Second):
			bad("m3-close-does-not-return", "every producer has returned but Close has not returned after 60s; goroutines:\n"+dump())
			c.Finish()
			os.Exit(1)
		}
	}()
	wgC.Wait()
	close(closersDone)
	wg.Wait()
	atomic.StoreInt32(&inj.Off, 1)
	nilCount := 0
	for _, e := range closeErrs {
		if e == nil {
			nilCount++
		}
	}
	if nilCount != 1 {
		bad("close-results", fmt.Sprintf("%d of %d Close callers got nil (exactly the first must, the others an error): %v", nilCount, nClose, closeErrs))
	}
	if aliveAtReturn > 0 {
		bad("m3-goroutine-alive-when-close-returned", fmt.Sprintf("a goroutine the reporter started was still on a stack when Close returned (goroutines started by the library at the last probe: %v)", m3LastCreators.Load()))
	}
	// calls after Close are no-ops
	nFlushBefore := len(env.flushes())
	c.Guard("panic-m3-after-close", func() interface{} { return desc }, func() {
		cnt.ReportCount(1)
		g.ReportGauge(1)
		tm.ReportTimer(1)
		sharedBucket.ReportSamples(1)
		rep.Flush()
		rep.AllocateCounter("late", nil).ReportCount(1)
		rep.AllocateHistogram("lateh", nil, tally.ValueBuckets{1}).ValueBucket(0, 1).ReportSamples(1)
		if err := rep.Close(); err == nil {
			bad("second-close-returns-nil", "Close after Close returned nil")
		}
	})
	time.Sleep(200 * time.Microsecond)
	fl := env.flushes()
	cr := atomic.LoadInt64(&closeReturned)
	for _, s := range fl {
		if cr > 0 && s > cr {
			bad("emitted-after-close-returned", "a datagram was written to the socket after Close had returned")
			break
		}
	}
	if len(fl) != nFlushBefore {
		bad("emitted-after-close-returned", fmt.Sprintf("%d datagrams were written by calls made after Close", len(fl)-nFlushBefore))
	}
	leaked := true
	for t := 0; t < 200; t++ {
		if m3Goroutines() <= before {
			leaked = false
			break
		}
		time.Sleep(25 * time.Millisecond)
	}
	if leaked {
		bad("m3-goroutine-leak", "process/timeLoop goroutines still running 5s after Close returned")
	}
	tally.VerifSetHook(nil)
	if dest != "closed-mid-run" {
		env.closeSinks()
	}
	c.Event("report-calls", atomic.LoadInt64(&produced))
	c.Event("datagrams-written", int64(len(fl)))
	hits, inter, _ := inj.Stats.Report()
	mergeStats(c, hits, inter)
	c.Distinct(mon.Hash64(fmt.Sprint(desc), fmt.Sprint(r.U64())))
	if c.WantSample() {
		c.Sample(map[string]interface{}{"config": desc, "datagrams_written": len(fl)})
	}
}

// c14CallersKeepCalling: "Close returns" must not depend on the callers going
// quiet. Many goroutines keep calling the reporter in a tight loop - they
// cannot know that it is being closed - until Close has returned. Bounded
// progress: Close must return within 20 s (normal: well under a second). The
// verdict needs a logical corroboration as well: the M3Entered point (hit
// after a caller has registered itself as pending) must have been reached
// more than 100 times per caller after Close's M3CloseCAS point, i.e. callers
// kept registering as pending after the reporter was marked closed, which is
// what keeps Close waiting. A slow Close without that is inconclusive.
func c14CallersKeepCalling(c *mon.Ctx, r *mon.Rand) {
	N := 8 * runtime.GOMAXPROCS(0)
	if N < 64 {
		N = 64
	}
	dest := []string{"alive", "dead-port"}[r.Intn(2)]
	opts := m3.Options{Service: "s", Env: "e", MaxQueueSize: []int{16, 4096}[r.Intn(2)]}
	if r.Bool() {
		opts.Protocol = m3.Binary
	}
	nSinks := 1
	if dest == "dead-port" {
		nSinks = 0
		opts.HostPorts = []string{mon.DeadPort()}
	}
	var closeBegan int32
	var enteredAfter int64
	hook := func(id int) {
		switch id {
		case tally.VerifM3CloseCAS:
			atomic.StoreInt32(&closeBegan, 1)
		case tally.VerifM3Entered:
			if atomic.LoadInt32(&closeBegan) == 1 {
				atomic.AddInt64(&enteredAfter, 1)
			}
		}
	}
	desc := map[string]interface{}{"callers_that_keep_calling": N, "destination": dest, "queue": opts.MaxQueueSize, "protocol": protoName(opts.Protocol)}
	c.LogCase(fmt.Sprint(desc))
	env, err := newM3Env(nSinks, opts, hook)
	if err != nil {
		c.Inconclusive("NewReporter: " + err.Error())
		return
	}
	c.Eval(1)
	rep := env.Rep
	cnt := rep.AllocateCounter("c", map[string]string{"a": "b"})
	g := rep.AllocateGauge("g", nil)
	var stop int32
	var calls int64
	var wg sync.WaitGroup
	for i := 0; i < N; i++ {
		wg.Add(1)
		go func(i int) {
			defer wg.Done()
			c.Guard("panic-m3", func() interface{} { return desc }, func() {
				n := int64(0)
				for atomic.LoadInt32(&stop) == 0 {
					if i%8 == 7 {
						g.ReportGauge(1)
					} else {
						cnt.ReportCount(1)
					}
					n++
					if n&1023 == 0 {
						atomic.AddInt64(&calls, 1024)
					}
				}
			})
		}(i)
	}
	time.Sleep(time.Duration(r.Range(200, 2000)) * time.Microsecond)
	closed := make(chan error, 1)
	t0 := time.Now()
	go func() { closed <- rep.Close() }()
	var took time.Duration
	starved := false
	select {
	case err := <-closed:
		took = time.Since(t0)
		if err != nil {
			c.Violation("close-results", map[string]interface{}{"why": "first Close returned " + err.Error(), "case": desc})
		}
	case <-time.After(20 * time.Second):
		starved = true
	}
	ea := atomic.LoadInt64(&enteredAfter)
	atomic.StoreInt32(&stop, 1)
	if starved {
		select {
		case <-closed:
		case <-time.After(60 * time.Second):
			c.Violation("m3-close-does-not-return", map[string]interface{}{"why": "Close has not returned 60s after every caller stopped", "case": desc})
			c.Finish()
			os.Exit(1)
		}
		if ea > int64(100*N) {
			c.Violation("m3-close-starved-by-callers", map[string]interface{}{"why": fmt.Sprintf("Close had not returned after 20s while %d goroutines kept calling the reporter (it returned once they stopped); after the reporter was marked closed callers still registered as pending %d times (%d calls made in total)", N, ea, atomic.LoadInt64(&calls)), "case": desc})
		} else {
			c.Inconclusive(fmt.Sprintf("Close took more than 20s with callers still calling, but only %d pending registrations after the close began", ea))
		}
	}
	wg.Wait()
	env.finish()
	c.Event("calls-by-goroutines-that-keep-calling", atomic.LoadInt64(&calls))
	c.Event("pending-registrations-after-close-began", ea)
	c.Class("close-with-callers-still-calling-returned", 1)
	if c.WantSample() {
		c.Sample(map[string]interface{}{"config": desc, "close_took_ms": took.Milliseconds(), "pending_registrations_after_close_began": ea})
	}
	c.Distinct(mon.Hash64("keepcalling", fmt.Sprint(desc), fmt.Sprint(r.U64())))
}

// c14Token: the enter/close handshake under the deterministic token scheduler.
// Producers (1-3 calls each: counter, gauge, bucket sample, Flush) and 1-2
// Close callers are serialised at the reporter's schedule points (M3Entered
// after a caller registered as pending, M3Checked after it looked at the
// closed flag, M3CloseCAS / M3CloseSpin (every turn of Close's wait loop) /
// M3CloseDrained / M3CloseDonech): exactly one of them runs at a time and the
// PRNG picks who continues at every point, so the interleavings of the three
// steps of the enter protocol with the steps of Close are explored one by one,
// each a real execution, the trace being the replayable witness. The queue is
// larger than the number of calls, so no registered goroutine can block on it;
// the batching goroutine is not registered and runs freely.
// Oracle: no panic (send on a closed queue), exactly one Close returns nil,
// the others an error, nothing is written to the socket after Close returned,
// no reporter goroutine is left, calls after Close are no-ops.
func c14Token(c *mon.Ctx, r *mon.Rand) {
	opts := m3.Options{Service: "s", Env: "e", MaxQueueSize: 4096, HostPorts: []string{mon.DeadPort()}}
	if r.Bool() {
		opts.Protocol = m3.Binary
	}
	ts := mon.NewTokenSched(r.Fork(5))
	ts.Sticky = []int{0, 30, 60, 85}[r.Intn(4)]
	before := m3Goroutines()
	env, err := newM3Env(0, opts, ts.Hook)
	if err != nil {
		c.Inconclusive("NewReporter: " + err.Error())
		return
	}
	rep := env.Rep
	cnt := rep.AllocateCounter("c", map[string]string{"a": "b"})
	g := rep.AllocateGauge("g", nil)
	hv := rep.AllocateHistogram("h", nil, tally.ValueBuckets{1, 2})
	bk := hv.ValueBucket(1, 2)
	nProd := r.Range(1, 3)
	nClose := r.Range(1, 2)
	prog := make([][]int, nProd)
	for p := range prog {
		for k, n := 0, r.Range(1, 3); k < n; k++ {
			prog[p] = append(prog[p], r.Intn(4))
		}
	}
	desc := map[string]interface{}{"protocol": protoName(opts.Protocol), "producers": prog, "close_callers": nClose, "sticky": ts.Sticky}
	c.LogCase(fmt.Sprint(desc))
	stop := c.Watchdog(120*time.Second, "no-progress(token schedule wedged: a registered goroutine blocks)", desc)
	defer stop()
	closeErrs := make([]error, nClose)
	var closeReturned int64
	var fns []func()
	for p := range prog {
		ops := prog[p]
		fns = append(fns, func() {
			c.Guard("panic-m3", func() interface{} { return desc }, func() {
				for _, o := range ops {
					ts.Yield()
					switch o {
					case 0:
						cnt.ReportCount(1)
					case 1:
						g.ReportGauge(1)
					case 2:
						bk.ReportSamples(1)
					default:
						rep.Flush()
					}
				}
			})
		})
	}
	for k := 0; k < nClose; k++ {
		k := k
		fns = append(fns, func() {
			c.Guard("panic-m3-close", func() interface{} { return desc }, func() {
				ts.Yield()
				closeErrs[k] = rep.Close()
				if closeErrs[k] == nil {
					atomic.StoreInt64(&closeReturned, mon.NextSeq())
				}
			})
		})
	}
	ts.Run(fns)
	c.Eval(1)
	bad := func(sig, why string) {
		desc["trace"] = ts.TraceString()
		c.Violation(sig, map[string]interface{}{"why": why, "case": desc})
	}
	nilCount := 0
	for _, e := range closeErrs {
		if e == nil {
			nilCount++
		}
	}
	if nilCount != 1 {
		bad("close-results", fmt.Sprintf("%d of %d Close callers got nil: %v", nilCount, nClose, closeErrs))
	}
	nFlushBefore := len(env.flushes())
	c.Guard("panic-m3-after-close", func() interface{} { return desc }, func() {
		cnt.ReportCount(1)
		bk.ReportSamples(1)
		rep.Flush()
		if err := rep.Close(); err == nil {
			bad("second-close-returns-nil", "Close after Close returned nil")
		}
	})
	fl := env.flushes()
	cr := atomic.LoadInt64(&closeReturned)
	for _, s := range fl {
		if cr > 0 && s > cr {
			bad("emitted-after-close-returned", "a datagram was written to the socket after Close had returned")
			break
		}
	}
	if len(fl) != nFlushBefore {
		bad("emitted-after-close-returned", fmt.Sprintf("%d datagrams were written by calls made after Close", len(fl)-nFlushBefore))
	}
	leaked := true
	for t := 0; t < 200; t++ {
		if m3Goroutines() <= before {
			leaked = false
			break
		}
		time.Sleep(25 * time.Millisecond)
	}
	if leaked {
		bad("m3-goroutine-leak", "process/timeLoop goroutines still running 5s after Close returned")
	}
	tally.VerifSetHook(nil)
	trace := ts.TraceString()
	if ts.Switches() > 0 {
		c.Distinct(mon.Hash64(trace, fmt.Sprint(prog, nClose)))
		c.Class("schedules-with-a-switch-inside-the-handshake", 1)
	}
	c.Event("schedule-steps", int64(len(ts.Trace)))
	if c.WantSample() {
		desc["trace"] = trace
		c.Sample(desc)
	}
}

// c14ImmediateClose: Close right after construction, on one P, so that the
// reporter's goroutines have not run yet when Close is called: when Close has
// returned none of them may exist any more.
func c14ImmediateClose(c *mon.Ctx, r *mon.Rand) {
	prev := runtime.GOMAXPROCS(1)
	defer runtime.GOMAXPROCS(prev)
	sightings := 0
	for k := 0; k < 10; k++ {
		before := m3Goroutines()
		opts := m3.Options{Service: "s", Env: "e", MaxQueueSize: []int{1, 64, 4096}[r.Intn(3)], HostPorts: []string{mon.DeadPort()}}
		if r.Bool() {
			opts.Protocol = m3.Binary
		}
		rep, err := m3.NewReporter(opts)
		if err != nil {
			c.Inconclusive("NewReporter: " + err.Error())
			return
		}
		if r.Bool() {
			rep.AllocateCounter("c", nil).ReportCount(1)
		}
		if err := rep.Close(); err != nil {
			c.Violation("close-error", map[string]interface{}{"why": fmt.Sprintf("Close right after construction returned %v", err)})
		}
		if alive := m3Goroutines() - before; alive > 0 {
			sightings++
		}
		c.Event("immediate-m3-closes", 1)
	}
	// (see c08ImmediateClose: a goroutine in its last instructions can be seen
	// once in a while; one that Close does not wait for is seen every time)
	if sightings >= 6 {
		c.Violation("m3-goroutine-alive-when-close-returned", map[string]interface{}{"why": fmt.Sprintf("Close was called right after NewReporter (one P: the reporter's goroutines had not run yet) and returned while one of them still existed - in %d of 10 trials", sightings)})
	} else if sightings > 0 {
		c.Class("goroutine-seen-in-its-last-instructions", int64(sightings))
	}
	c.Eval(1)
}
