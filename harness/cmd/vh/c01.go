package main

import (
	"fmt"
	"io"
	"math"
	"runtime"
	"sync"
	"sync/atomic"
	"time"

	tally "github.com/uber-go/tally/v4"

	"verifharness/mon"
)

func init() { register("C01", runC01) }

func runC01(c *mon.Ctx) {
	switch flagMode {
	case "lifecycle":
		c.Cases(func(i int, r *mon.Rand) { lifecycleCase(c, r, "C01") })
	case "stress":
		c.Cases(func(i int, r *mon.Rand) {
			c01Stress(c, r)
			c01FirstSamplesRace(c, r.Fork(31))
		})
	default:
		c.Cases(func(i int, r *mon.Rand) { c01Token(c, r) })
	}
}

var c01IncVals = []int64{1, 1, 2, 0, 7, 100, 1 << 40}
var c01IncValsHostile = []int64{1, 0, -1, 7, -7, math.MaxInt64, math.MinInt64, 1 << 62, -(1 << 62)}

// c01Token: one deterministic schedule of incrementers and overlapping scope
// reports, serialised at atomic-operation granularity by the token scheduler.
func c01Token(c *mon.Ctx, r *mon.Rand) {
	cached := r.Bool()
	var rec *mon.Recorder
	opts := tally.ScopeOptions{OmitCardinalityMetrics: true}
	if cached {
		cr := mon.NewCachedRec(true)
		rec = cr.Recorder
		opts.CachedReporter = cr
	} else {
		pr := mon.NewPlainRec(true)
		rec = pr.Recorder
		opts.Reporter = pr
	}
	root, _ := vNewRoot(opts, 0, 1)
	var sc tally.Scope = root
	prefix := ""
	if r.Bool() {
		sc = root.SubScope("s")
		prefix = "s."
	}
	nc := r.Range(1, 3)
	counters := make([]tally.Counter, nc)
	for i := range counters {
		counters[i] = sc.Counter(fmt.Sprintf("c%d", i))
	}
	withHist := r.Bool()
	var hist tally.Histogram
	if withHist {
		hist = sc.Histogram("h", tally.ValueBuckets{1, 2})
	}
	hostile := r.Chance(1, 4)
	vals := c01IncVals
	if hostile {
		vals = c01IncValsHostile
	}
	nInc := r.Range(1, 2)
	nRep := r.Range(2, 3)
	type op struct {
		Ctr int
		V   int64
		HV  float64
	}
	incOps := make([][]op, nInc)
	var sums = make([]int64, nc)
	histSum := map[float64]int64{} // upper bound -> samples
	for g := range incOps {
		n := r.Range(1, 4)
		for k := 0; k < n; k++ {
			if withHist && r.Chance(1, 4) {
				x := []float64{0.5, 1, 1.5, 2, 3}[r.Intn(5)]
				incOps[g] = append(incOps[g], op{Ctr: -1, HV: x})
				u, _ := mon.RefUpperV([]float64{1, 2}, x)
				histSum[u]++
			} else {
				o := op{Ctr: r.Intn(nc), V: vals[r.Intn(len(vals))]}
				incOps[g] = append(incOps[g], o)
				sums[o.Ctr] += o.V
			}
		}
	}
	repOps := make([]int, nRep)
	for g := range repOps {
		repOps[g] = r.Range(1, 3)
	}

	ts := mon.NewTokenSched(r.Fork(77))
	ts.Sticky = []int{0, 30, 60, 85}[r.Intn(4)]
	var fns []func()
	for g := range incOps {
		ops := incOps[g]
		fns = append(fns, func() {
			for _, o := range ops {
				ts.Yield()
				if o.Ctr >= 0 {
					rec.MarkV("inc", o.Ctr, o.V)
					counters[o.Ctr].Inc(o.V)
				} else {
					u, _ := mon.RefUpperV([]float64{1, 2}, o.HV)
					rec.MarkV("hinc:"+fstr(u), -1, 1)
					hist.RecordValue(o.HV)
				}
			}
		})
	}
	for g := range repOps {
		n := repOps[g]
		fns = append(fns, func() {
			for k := 0; k < n; k++ {
				ts.Yield()
				tally.VerifReportScope(sc)
			}
		})
	}
	tally.VerifSetHook(ts.Hook)
	ts.Run(fns)
	tally.VerifSetHook(nil)
	quiesce := rec.Mark("quiescent", 0)
	tally.VerifReportPass(root)
	afterFinal := rec.Mark("after-final-pass", 0)
	tally.VerifReportPass(root)

	c.Eval(1)
	trace := ts.TraceString()
	if ts.Switches() > 0 {
		c.Distinct(mon.Hash64(trace, fmt.Sprint(incOps, cached, prefix)))
		c.Class("schedules-with-a-switch-inside-a-library-window", 1)
	}
	c.Event("schedule-steps", int64(len(ts.Trace)))
	desc := func() interface{} {
		return map[string]interface{}{"cached": cached, "scope_prefix": prefix, "counters": nc, "histogram": withHist, "inc_ops": fmt.Sprint(incOps), "report_ops": repOps, "sticky": ts.Sticky, "trace": trace}
	}
	if c.WantSample() {
		c.Sample(desc())
	}
	_ = quiesce

	log, _, _ := rec.Snapshot()
	started := map[string]int64{}
	delivered := map[string]int64{}
	allNonNeg := !hostile
	for _, ev := range log {
		switch ev.Kind {
		case mon.EvMarker:
			if ev.Marker == "inc" {
				started[fmt.Sprintf("%sc%d", prefix, ev.Who)] += ev.I
			} else if len(ev.Marker) > 5 && ev.Marker[:5] == "hinc:" {
				started["h|"+ev.Marker[5:]] += 1
			}
		case mon.EvCounter, mon.EvHistV:
			key := ev.Name
			if ev.Kind == mon.EvHistV {
				key = "h|" + fstr(ev.Hi)
			}
			c.Event("deliveries", 1)
			delivered[key] += ev.I
			if ev.I == 0 {
				c.Violation("zero-delta-delivered", map[string]interface{}{"why": fmt.Sprintf("a delivery of 0 for %s", key), "case": desc()})
			}
			if allNonNeg {
				if ev.I < 0 {
					c.Violation("negative-delta", map[string]interface{}{"why": fmt.Sprintf("delta %d delivered for %s although every increment is non-negative", ev.I, key), "case": desc()})
				}
				if delivered[key] > started[key] {
					c.Violation("over-report", map[string]interface{}{"why": fmt.Sprintf("%s: %d delivered so far but only %d incremented so far", key, delivered[key], started[key]), "case": desc()})
				}
			}
			if ev.Seq > afterFinal {
				c.Violation("delivery-without-new-increments", map[string]interface{}{"why": fmt.Sprintf("a further pass delivered %d for %s", ev.I, key), "case": desc()})
			}
		}
	}
	for i := 0; i < nc; i++ {
		key := fmt.Sprintf("%sc%d", prefix, i)
		if delivered[key] != sums[i] {
			c.Violation("conservation", map[string]interface{}{"why": fmt.Sprintf("%s: delivered total %d, incremented total %d", key, delivered[key], sums[i]), "case": desc()})
		}
	}
	for u, n := range histSum {
		key := "h|" + fstr(u)
		if delivered[key] != n {
			c.Violation("conservation-histogram", map[string]interface{}{"why": fmt.Sprintf("bucket %s: delivered %d samples, recorded %d", key, delivered[key], n), "case": desc()})
		}
	}
}

// c01Stress: real concurrency with delay injection: ticker + manual passes +
// report-on-reacquire + root Close while other workers still run.
func c01Stress(c *mon.Ctx, r *mon.Rand) {
	cached := r.Bool()
	// every sixth run configures both reporter kinds: whichever reporter the
	// library then delivers buffered metrics to, it must deliver all of them
	// there (a reporter that received any counter delivery is held to the full
	// conservation oracle)
	both := r.Chance(1, 6)
	var rec, rec2 *mon.Recorder
	opts := tally.ScopeOptions{OmitCardinalityMetrics: r.Bool()}
	if cached || both {
		cr := mon.NewCachedRec(false)
		rec = cr.Recorder
		opts.CachedReporter = cr
	}
	if !cached || both {
		pr := mon.NewPlainRec(false)
		if both {
			rec2 = pr.Recorder
		} else {
			rec = pr.Recorder
		}
		opts.Reporter = pr
	}
	// a third of the runs use a sanitizer that rewrites the tag values of the
	// close/re-request workers, so that their scope is registered under several
	// raw spellings besides its sanitized key (one object reached from two keys)
	withSan := r.Chance(1, 3)
	if withSan {
		so := tally.SanitizeOptions{
			NameCharacters:       tally.ValidCharacters{Ranges: tally.AlphanumericRange, Characters: tally.UnderscoreDashDotCharacters},
			KeyCharacters:        tally.ValidCharacters{Ranges: tally.AlphanumericRange, Characters: tally.UnderscoreCharacters},
			ValueCharacters:      tally.ValidCharacters{Ranges: tally.AlphanumericRange, Characters: tally.UnderscoreCharacters},
			ReplacementCharacter: '_',
		}
		opts.SanitizeOptions = &so
	}
	interval := time.Duration(r.Range(50, 200)) * time.Microsecond
	shards := uint(r.Range(0, 4)) // 0 = the public constructor (GOMAXPROCS shards)
	if withSan && shards != 1 {
		shards = 1 // spellings of one identity share a scope only within one shard
	}
	nScopes := r.Range(1, 30)
	perScope := r.Range(5, 40)
	nWorkers := r.Range(2, 6)
	nReacq := r.Range(1, 3)
	nPassers := r.Range(1, 2)
	iters := r.Range(200, 1500)
	prof := mon.RandomProfile(r, []int{tally.VerifCtrLoaded1, tally.VerifCtrLoaded2, tally.VerifCtrBeforeAdd, tally.VerifRegScopeReported, tally.VerifPassBegin, tally.VerifPassLocked,
		tally.VerifReacquireBeforeReport, tally.VerifRemoveHandover1, tally.VerifRemoveHandover2, tally.VerifCloseEnter, tally.VerifCloseBeforeFinal, tally.VerifSubscopeUpgrade}, r.Intn(3))
	inj := mon.NewDelayInjector(r.U64(), prof, true)
	desc := map[string]interface{}{"cached": cached, "both_reporter_kinds_configured": both, "sanitizer_rewriting_reacquired_tags": withSan, "interval_us": interval.Microseconds(), "shards": shards, "scopes": nScopes, "counters_per_scope": perScope,
		"workers": nWorkers, "reacquire_workers": nReacq, "manual_passers": nPassers, "iterations": iters, "delay_strength": prof.Strength}
	c.LogCase(fmt.Sprint(desc))
	stopWatch := c.Watchdog(300*time.Second, "no-progress(deadlock?)", desc)
	defer stopWatch()
	inj.Install()
	defer inj.Uninstall()
	root, closer := vNewRoot(opts, interval, shards)

	type ctr struct {
		c    tally.Counter
		name string
		sum  int64
	}
	var all [][]*ctr // per worker
	all = make([][]*ctr, nWorkers)
	k := 0
	for s := 0; s < nScopes; s++ {
		sc := root.SubScope(fmt.Sprintf("s%d", s))
		for j := 0; j < perScope; j++ {
			name := fmt.Sprintf("c%d", j)
			w := k % nWorkers
			if withSan && j%2 == 1 {
				// requested under a spelling the sanitizer rewrites (twice, under two
				// spellings): delivered under the sanitized name only
				name = fmt.Sprintf("c_%d", j)
				sc.Counter(fmt.Sprintf("c:%d", j))
				all[w] = append(all[w], &ctr{c: sc.Counter(fmt.Sprintf("c %d", j)), name: fmt.Sprintf("s%d.%s", s, name)})
				k++
				continue
			}
			all[w] = append(all[w], &ctr{c: sc.Counter(name), name: fmt.Sprintf("s%d.%s", s, name)})
			k++
		}
	}
	// per worker: 48 single-bucket histograms, each recorded on only now and then,
	// so that the last sample of a histogram often falls next to a pass visiting it
	const nHist = 48
	whist := make([][]tally.Histogram, nWorkers)
	whsum := make([][]int64, nWorkers)
	for w := range whist {
		whist[w] = make([]tally.Histogram, nHist)
		whsum[w] = make([]int64, nHist)
		sc := root.SubScope(fmt.Sprintf("hs%d", w))
		for k := range whist[w] {
			if withSan && k%2 == 1 {
				sc.Histogram(fmt.Sprintf("h%d:", k), tally.ValueBuckets{})
				whist[w][k] = sc.Histogram(fmt.Sprintf("h%d ", k), tally.ValueBuckets{})
				continue
			}
			if k%4 == 2 {
				// a specification that lists the largest finite value: samples above
				// every bound (+Inf) land in the last, zero-width bucket
				whist[w][k] = sc.Histogram(fmt.Sprintf("h%d", k), tally.ValueBuckets{0, math.MaxFloat64})
				continue
			}
			whist[w][k] = sc.Histogram(fmt.Sprintf("h%d", k), tally.ValueBuckets{})
		}
	}
	var wg sync.WaitGroup
	var stop int32
	// counters that every guaranteed worker uses for the first time at the same
	// moment and keeps a handle to (first use racing first use and the passes)
	const nShared = 4
	var sharedSum, sharedHSum [nShared]int64
	sharedScope := root.SubScope("firstuse")
	barrier := make(chan struct{})
	// guaranteed workers
	for w := 0; w < nWorkers; w++ {
		wg.Add(1)
		wr := r.Fork(uint64(1000 + w))
		go func(w int) {
			defer wg.Done()
			mine := all[w]
			<-barrier
			var sh [nShared]tally.Counter
			for k := range sh {
				sh[k] = sharedScope.Counter(fmt.Sprintf("sh%d", k))
				sh[k].Inc(1)
				atomic.AddInt64(&sharedSum[k], 1)
			}
			// and the very first samples of one bucket of fresh histograms
			for k := 0; k < nShared; k++ {
				sharedScope.Histogram(fmt.Sprintf("shh%d", k), tally.ValueBuckets{}).RecordValue(1)
				atomic.AddInt64(&sharedHSum[k], 1)
			}
			for i := 0; i < iters; i++ {
				if i%16 == 0 {
					k := wr.Intn(nShared)
					sh[k].Inc(2)
					atomic.AddInt64(&sharedSum[k], 2)
				}
				if i%3 == 0 {
					k := wr.Intn(nHist)
					if k%4 == 2 && whsum[w][k]%2 == 0 {
						whist[w][k].RecordValue(math.Inf(1))
					} else {
						whist[w][k].RecordValue(1)
					}
					whsum[w][k]++
				}
				if len(mine) == 0 {
					continue // fewer counters than workers: this one only uses the shared ones
				}
				x := mine[wr.Intn(len(mine))]
				v := int64(wr.Range(0, 5))
				x.sum += v
				x.c.Inc(v)
			}
		}(w)
	}
	// re-acquire workers: close and immediately re-request their own subscope
	reSums := make([]int64, nReacq)
	var wg2 sync.WaitGroup
	for w := 0; w < nReacq; w++ {
		wg.Add(1)
		wr := r.Fork(uint64(2000 + w))
		go func(w int) {
			defer wg.Done()
			name := fmt.Sprintf("re%d", w)
			for i := 0; i < iters/4; i++ {
				var sc tally.Scope
				if withSan {
					sc = root.Tagged(map[string]string{"id": name + []string{"_", ".", "-", ":"}[i%4] + "x"})
				} else {
					sc = root.SubScope(name)
				}
				n := wr.Range(1, 3)
				if w%2 == 1 {
					// odd workers: a scope that never holds anything but a histogram
					hn := sc.Histogram("h", tally.ValueBuckets{})
					for j := 0; j < n; j++ {
						hn.RecordValue(1)
						reSums[w]++
					}
					sc.(io.Closer).Close()
					continue
				}
				cn := sc.Counter("c")
				for j := 0; j < n; j++ {
					cn.Inc(1)
					reSums[w]++
				}
				sc.(io.Closer).Close()
			}
		}(w)
	}
	// manual passers
	for p := 0; p < nPassers; p++ {
		wg2.Add(1)
		go func() {
			defer wg2.Done()
			for atomic.LoadInt32(&stop) == 0 {
				tally.VerifReportPass(root)
				time.Sleep(20 * time.Microsecond)
			}
		}()
	}
	// non-guaranteed workers keep running through Close
	ngSums := make([]int64, 2)
	ngCtr := []tally.Counter{root.SubScope("ng").Counter("a"), root.SubScope("ng").Counter("b")}
	for w := 0; w < 2; w++ {
		wg2.Add(1)
		go func(w int) {
			defer wg2.Done()
			for atomic.LoadInt32(&stop) == 0 {
				atomic.AddInt64(&ngSums[w], 1)
				ngCtr[w].Inc(1)
			}
		}(w)
	}
	close(barrier)
	wg.Wait() // guaranteed increments are done
	time.Sleep(time.Duration(r.Range(0, 300)) * time.Microsecond)
	closer.Close()
	atomic.StoreInt32(&stop, 1)
	wg2.Wait()
	atomic.StoreInt32(&inj.Off, 1)

	c.Eval(1)
	recsToCheck := []*mon.Recorder{rec}
	if both {
		recsToCheck = nil
		for _, x := range []*mon.Recorder{rec, rec2} {
			if x.Count(mon.EvCounter) > 0 {
				recsToCheck = append(recsToCheck, x)
			}
		}
		if len(recsToCheck) == 0 {
			c.Violation("conservation", map[string]interface{}{"why": "both reporter kinds configured and neither received a single counter delivery", "case": desc})
		}
		c.Class("runs-with-both-reporter-kinds", 1)
	}
	var nctr, deliveries int64
	for _, rec := range recsToCheck {
		_, agg, _ := rec.Snapshot()
		for w := range all {
			for _, x := range all[w] {
				nctr++
				a := agg[mon.IdentKey(x.name, nil)]
				if a.Sum != x.sum {
					c.Violation("conservation", map[string]interface{}{"why": fmt.Sprintf("%s: delivered total %d, incremented total %d before Close", x.name, a.Sum, x.sum), "case": desc})
				}
			}
		}
		for w := range whist {
			for k := range whist[w] {
				hname := fmt.Sprintf("hs%d.h%d", w, k)
				if withSan && k%2 == 1 {
					hname += "_"
				}
				a := agg[mon.BucketKeyV(hname, nil, -math.MaxFloat64, math.MaxFloat64)]
				if k%4 == 2 {
					a = mon.Agg{}
					for _, p := range mon.RefPairsV([]float64{0, math.MaxFloat64}) {
						a.Sum += agg[mon.BucketKeyV(hname, nil, p.Lo, p.Hi)].Sum
					}
				}
				if a.Sum != whsum[w][k] {
					c.Violation("conservation-histogram", map[string]interface{}{"why": fmt.Sprintf("histogram hs%d.h%d: %d samples delivered, %d recorded before Close", w, k, a.Sum, whsum[w][k]), "case": desc})
				}
			}
		}
		for k := 0; k < nShared; k++ {
			if a := agg[mon.BucketKeyV(fmt.Sprintf("firstuse.shh%d", k), nil, -math.MaxFloat64, math.MaxFloat64)]; a.Sum != sharedHSum[k] {
				c.Violation("conservation-first-use", map[string]interface{}{"why": fmt.Sprintf("histogram firstuse.shh%d: %d samples delivered, %d recorded as the first samples of its bucket by %d workers at the same moment", k, a.Sum, sharedHSum[k], nWorkers), "case": desc})
			}
		}
		for k := 0; k < nShared; k++ {
			a := agg[mon.IdentKey(fmt.Sprintf("firstuse.sh%d", k), nil)]
			if a.Sum != sharedSum[k] {
				c.Violation("conservation-first-use", map[string]interface{}{"why": fmt.Sprintf("firstuse.sh%d: delivered total %d, incremented total %d through the handles %d workers obtained at the same moment", k, a.Sum, sharedSum[k], nWorkers), "case": desc})
			}
		}
		for w := 0; w < nReacq; w++ {
			reKey := mon.IdentKey(fmt.Sprintf("re%d.c", w), nil)
			if withSan {
				reKey = mon.IdentKey("c", map[string]string{"id": fmt.Sprintf("re%d_x", w)})
			}
			if w%2 == 1 {
				reKey = mon.BucketKeyV(fmt.Sprintf("re%d.h", w), nil, -math.MaxFloat64, math.MaxFloat64)
				if withSan {
					reKey = mon.BucketKeyV("h", map[string]string{"id": fmt.Sprintf("re%d_x", w)}, -math.MaxFloat64, math.MaxFloat64)
				}
			}
			a := agg[reKey]
			if a.Sum != reSums[w] {
				c.Violation("conservation-reacquire", map[string]interface{}{"why": fmt.Sprintf("re%d (even workers: a counter, odd workers: a scope holding only a histogram): delivered total %d, recorded total %d (close + immediate re-request cycles)", w, a.Sum, reSums[w]), "case": desc})
			}
		}
		for w := 0; w < 2; w++ {
			a := agg[mon.IdentKey("ng."+[]string{"a", "b"}[w], nil)]
			if a.Sum > atomic.LoadInt64(&ngSums[w]) {
				c.Violation("over-report", map[string]interface{}{"why": fmt.Sprintf("non-guaranteed counter delivered %d > incremented %d", a.Sum, ngSums[w]), "case": desc})
			}
		}
		for key, a := range agg {
			deliveries += a.N
			if a.Neg > 0 {
				c.Violation("negative-delta", map[string]interface{}{"why": fmt.Sprintf("%d negative deltas delivered for %q although every increment is non-negative", a.Neg, key), "case": desc})
			}
			if a.Zero > 0 {
				c.Violation("zero-delta-delivered", map[string]interface{}{"why": fmt.Sprintf("%d zero deltas delivered for %q", a.Zero, key), "case": desc})
			}
		}
	}
	c.Event("counters-checked", nctr)
	c.Event("deliveries", deliveries)
	hits, inter, sigs := inj.Stats.Report()
	for _, s := range sigs {
		c.Distinct(mon.Hash64(s))
	}
	mergeStats(c, hits, inter)
	if c.WantSample() {
		s := map[string]interface{}{"config": desc}
		if len(sigs) > 0 {
			s["an_interleaving_signature"] = mon.SigName(sigs[len(sigs)/2])
		}
		c.Sample(s)
	}
}

var statsMu sync.Mutex
var statsHits = map[string]int64{}
var statsInter = map[string]int64{}

// mergeStats accumulates hook statistics into the result's extras.
func mergeStats(c *mon.Ctx, hits, inter map[string]int64) {
	statsMu.Lock()
	defer statsMu.Unlock()
	for k, v := range hits {
		statsHits[k] += v
	}
	for k, v := range inter {
		statsInter[k] += v
	}
	h := map[string]int64{}
	for k, v := range statsHits {
		h[k] = v
	}
	i := map[string]int64{}
	for k, v := range statsInter {
		i[k] = v
	}
	c.SetExtra("hook_hits", h)
	c.SetExtra("hook_windows_interleaved", i)
}

// c01FirstSamplesRace: the very first samples of one histogram bucket (and the
// very first increments of one counter) arrive from several goroutines at the
// same moment; one pass later every one of them must have been delivered.
// Forty fresh metrics per call.
func c01FirstSamplesRace(c *mon.Ctx, r *mon.Rand) {
	cached := r.Bool()
	var rec *mon.Recorder
	opts := tally.ScopeOptions{OmitCardinalityMetrics: true}
	if cached {
		cr := mon.NewCachedRec(false)
		rec = cr.Recorder
		opts.CachedReporter = cr
	} else {
		pr := mon.NewPlainRec(false)
		rec = pr.Recorder
		opts.Reporter = pr
	}
	root, _ := vNewRoot(opts, 0, uint(r.Range(0, 2)))
	G := r.Range(2, 8)
	const rounds = 40
	for k := 0; k < rounds; k++ {
		h := root.Histogram(fmt.Sprintf("fh%d", k), tally.ValueBuckets{10})
		// and one with four buckets whose very first samples, one per goroutine,
		// go to different buckets at the same moment
		h4 := root.Histogram(fmt.Sprintf("fq%d", k), tally.ValueBuckets{10, 20, 30})
		ctr := root.Counter(fmt.Sprintf("fc%d", k))
		var wg sync.WaitGroup
		var ready int32
		for g := 0; g < G; g++ {
			wg.Add(1)
			go func(g int) {
				defer wg.Done()
				atomic.AddInt32(&ready, 1)
				for atomic.LoadInt32(&ready) < int32(G) {
					runtime.Gosched()
				}
				h.RecordValue(1)
				h4.RecordValue(float64(5 + 10*(g%4)))
				ctr.Inc(1)
			}(g)
		}
		wg.Wait()
	}
	// the same with the goroutines obtaining the metric themselves: the first
	// requests for one name race each other, and whichever object each caller is
	// handed, its sample must be delivered
	const obtainRounds = 120
	sub := root.SubScope("obtain")
	for k := 0; k < obtainRounds; k++ {
		hn, cn := fmt.Sprintf("oh%d", k), fmt.Sprintf("oc%d", k)
		var wg sync.WaitGroup
		var ready int32
		for g := 0; g < G; g++ {
			wg.Add(1)
			go func(g int) {
				defer wg.Done()
				atomic.AddInt32(&ready, 1)
				for n := 0; atomic.LoadInt32(&ready) < int32(G); n++ {
					if n > 2000 {
						runtime.Gosched()
					}
				}
				if (g+k)%2 == 0 {
					sub.Histogram(hn, tally.ValueBuckets{10}).RecordValue(1)
					sub.Counter(cn).Inc(1)
				} else {
					sub.Counter(cn).Inc(1)
					sub.Histogram(hn, tally.ValueBuckets{10}).RecordValue(1)
				}
			}(g)
		}
		wg.Wait()
		if k%16 == 15 {
			tally.VerifReportPass(root)
		}
	}
	tally.VerifReportPass(root)
	_, agg, _ := rec.Snapshot()
	for k := 0; k < obtainRounds; k++ {
		if a := agg[mon.BucketKeyV(fmt.Sprintf("obtain.oh%d", k), nil, -math.MaxFloat64, 10)]; a.Sum != int64(G) {
			c.Violation("conservation-first-use", map[string]interface{}{"why": fmt.Sprintf("histogram obtain.oh%d: %d samples delivered, %d goroutines requested it for the first time at the same moment and recorded one sample each into what they were handed", k, a.Sum, G), "cached": cached})
		}
		if a := agg[mon.IdentKey(fmt.Sprintf("obtain.oc%d", k), nil)]; a.Sum != int64(G) {
			c.Violation("conservation-first-use", map[string]interface{}{"why": fmt.Sprintf("counter obtain.oc%d: %d delivered, %d goroutines requested it for the first time at the same moment and incremented what they were handed once", k, a.Sum, G), "cached": cached})
		}
	}
	c.Event("first-request-races", obtainRounds)
	for k := 0; k < rounds; k++ {
		for b, p := range mon.RefPairsV([]float64{10, 20, 30}) {
			want := int64((G - b + 3) / 4)
			if a := agg[mon.BucketKeyV(fmt.Sprintf("fq%d", k), nil, p.Lo, p.Hi)]; a.Sum != want {
				c.Violation("conservation-first-use", map[string]interface{}{"why": fmt.Sprintf("histogram fq%d bucket %d: %d samples delivered, %d of the %d goroutines recorded their first sample there at the same moment as the others recorded theirs in other buckets", k, b, a.Sum, want, G), "cached": cached})
			}
		}
		if a := agg[mon.BucketKeyV(fmt.Sprintf("fh%d", k), nil, -math.MaxFloat64, 10)]; a.Sum != int64(G) {
			c.Violation("conservation-first-use", map[string]interface{}{"why": fmt.Sprintf("histogram fh%d: %d samples delivered, %d goroutines recorded the first samples of its bucket at the same moment", k, a.Sum, G), "cached": cached})
		}
		if a := agg[mon.IdentKey(fmt.Sprintf("fc%d", k), nil)]; a.Sum != int64(G) {
			c.Violation("conservation-first-use", map[string]interface{}{"why": fmt.Sprintf("counter fc%d: %d delivered, %d goroutines made its first increments at the same moment", k, a.Sum, G), "cached": cached})
		}
	}
	c.Event("first-sample-races", rounds)
}
