package main

import (
	"bytes"
	"fmt"
	"math"
	"sort"

	"github.com/uber-go/tally/v4/m3"
	customtransport "github.com/uber-go/tally/v4/m3/customtransports"
	m3thrift "github.com/uber-go/tally/v4/m3/thrift/v2"
	"github.com/uber-go/tally/v4/thirdparty/github.com/apache/thrift/lib/go/thrift"
)

func protoFactory(p m3.Protocol) thrift.TProtocolFactory {
	if p == m3.Compact {
		return thrift.NewTCompactProtocolFactory()
	}
	return thrift.NewTBinaryProtocolFactoryDefault()
}

func protoName(p m3.Protocol) string {
	if p == m3.Compact {
		return "compact"
	}
	return "binary"
}

// encoder writes structures through ONE reused protocol object into a memory
// buffer, the way the reporter reuses its protocol objects.
type encoder struct {
	buf   *thrift.TMemoryBuffer
	lim   *limitedTransport
	proto thrift.TProtocol
}

// limitedTransport is the memory buffer with a write budget: once budget
// bytes have been accepted every further write fails, the way a UDP transport
// refuses what does not fit (budget < 0: unlimited).
type limitedTransport struct {
	*thrift.TMemoryBuffer
	budget int
}

var errBudget = fmt.Errorf("transport refuses further data")

func (l *limitedTransport) take(n int) error {
	if l.budget < 0 {
		return nil
	}
	if n > l.budget {
		l.budget = 0
		return errBudget
	}
	l.budget -= n
	return nil
}

func (l *limitedTransport) Write(p []byte) (int, error) {
	if err := l.take(len(p)); err != nil {
		return 0, err
	}
	return l.TMemoryBuffer.Write(p)
}

func (l *limitedTransport) WriteByte(b byte) error {
	if err := l.take(1); err != nil {
		return err
	}
	return l.TMemoryBuffer.WriteByte(b)
}

func (l *limitedTransport) WriteString(s string) (int, error) {
	if err := l.take(len(s)); err != nil {
		return 0, err
	}
	return l.TMemoryBuffer.WriteString(s)
}

func newEncoder(p m3.Protocol) *encoder {
	buf := thrift.NewTMemoryBuffer()
	lim := &limitedTransport{TMemoryBuffer: buf, budget: -1}
	return &encoder{buf: buf, lim: lim, proto: protoFactory(p).GetProtocol(lim)}
}

// abort writes b through the reused protocol object with a transport that
// refuses data after `after` bytes (the write is abandoned where the error
// surfaces, as the generated client does), then drops what was buffered.
func (e *encoder) abort(b m3thrift.MetricBatch, after int) error {
	e.buf.Reset()
	e.lim.budget = after
	err := b.Write(e.proto)
	e.lim.budget = -1
	e.buf.Reset()
	return err
}

func (e *encoder) take() []byte {
	out := append([]byte(nil), e.buf.Bytes()...)
	e.buf.Reset()
	return out
}

func (e *encoder) metric(m m3thrift.Metric) ([]byte, error) {
	e.buf.Reset()
	err := m.Write(e.proto)
	return e.take(), err
}

func (e *encoder) batch(b m3thrift.MetricBatch) ([]byte, error) {
	e.buf.Reset()
	err := b.Write(e.proto)
	return e.take(), err
}

// calculator measures structures through ONE reused protocol object on the
// size-calculating transport.
type calculator struct {
	calc  *customtransport.TCalcTransport
	proto thrift.TProtocol
}

func newCalculator(p m3.Protocol) *calculator {
	calc := &customtransport.TCalcTransport{}
	return &calculator{calc: calc, proto: protoFactory(p).GetProtocol(calc)}
}

func (c *calculator) metric(m m3thrift.Metric) int32 {
	c.calc.ResetCount()
	m.Write(c.proto)
	n := c.calc.GetCount()
	c.calc.ResetCount()
	return n
}

func (c *calculator) batch(b m3thrift.MetricBatch) int32 {
	c.calc.ResetCount()
	b.Write(c.proto)
	n := c.calc.GetCount()
	c.calc.ResetCount()
	return n
}

func decodeMetric(p m3.Protocol, data []byte) (m3thrift.Metric, int, error) {
	buf := thrift.NewTMemoryBuffer()
	buf.Write(data)
	proto := protoFactory(p).GetProtocol(buf)
	var m m3thrift.Metric
	err := m.Read(proto)
	return m, buf.Len(), err
}

func decodeBatch(p m3.Protocol, data []byte) (m3thrift.MetricBatch, int, error) {
	buf := thrift.NewTMemoryBuffer()
	buf.Write(data)
	proto := protoFactory(p).GetProtocol(buf)
	var b m3thrift.MetricBatch
	err := b.Read(proto)
	return b, buf.Len(), err
}

// decodedMsg is one datagram decoded as a thrift message.
type decodedMsg struct {
	Name     string
	Type     thrift.TMessageType
	SeqID    int32
	Batch    m3thrift.MetricBatch
	Trailing int
}

// decodeDatagram decodes exactly one emitMetricBatchV2 message.
func decodeDatagram(p m3.Protocol, data []byte) (d decodedMsg, err error) {
	defer func() {
		if r := recover(); r != nil {
			err = fmt.Errorf("decoder panic: %v", r)
		}
	}()
	buf := thrift.NewTMemoryBuffer()
	buf.Write(data)
	proto := protoFactory(p).GetProtocol(buf)
	name, typ, seq, e := proto.ReadMessageBegin()
	if e != nil {
		return d, fmt.Errorf("message begin: %v", e)
	}
	d.Name, d.Type, d.SeqID = name, typ, seq
	args := m3thrift.M3EmitMetricBatchV2Args{}
	if e := args.Read(proto); e != nil {
		return d, fmt.Errorf("args: %v", e)
	}
	if e := proto.ReadMessageEnd(); e != nil {
		return d, fmt.Errorf("message end: %v", e)
	}
	d.Batch = args.Batch
	d.Trailing = buf.Len()
	return d, nil
}

func tagsKey(tags []m3thrift.MetricTag) string {
	ss := make([]string, 0, len(tags))
	for _, t := range tags {
		ss = append(ss, fmt.Sprintf("%d:%s=%d:%s", len(t.Name), t.Name, len(t.Value), t.Value))
	}
	sort.Strings(ss)
	return fmt.Sprint(ss)
}

func tagsEqualOrdered(a, b []m3thrift.MetricTag) bool {
	if len(a) != len(b) {
		return false
	}
	for i := range a {
		if a[i] != b[i] {
			return false
		}
	}
	return true
}

func metricEqual(a, b m3thrift.Metric) bool {
	return a.Name == b.Name && a.Timestamp == b.Timestamp && a.Value.MetricType == b.Value.MetricType &&
		a.Value.Count == b.Value.Count && a.Value.Timer == b.Value.Timer &&
		math.Float64bits(a.Value.Gauge) == math.Float64bits(b.Value.Gauge) && tagsEqualOrdered(a.Tags, b.Tags)
}

func batchEqual(a, b m3thrift.MetricBatch) bool {
	if len(a.Metrics) != len(b.Metrics) || !tagsEqualOrdered(a.CommonTags, b.CommonTags) {
		return false
	}
	for i := range a.Metrics {
		if !metricEqual(a.Metrics[i], b.Metrics[i]) {
			return false
		}
	}
	return true
}

var _ = bytes.Equal
