package main

import (
	"context"
	"errors"
	"fmt"
	"io"
	"sort"
	"sync"
	"time"

	tally "github.com/uber-go/tally/v4"
	"github.com/uber-go/tally/v4/instrument"

	"verifharness/mon"
)

func init() { register("C10", runC10) }

func runC10(c *mon.Ctx) {
	c.Cases(func(i int, r *mon.Rand) {
		c10Records(c, r.Fork(1))
		if i%8 == 0 {
			c10Stopwatch(c, r.Fork(2))
		}
		c10Exec(c, r.Fork(3), i%8 == 1)
		if i%8 == 3 {
			c10ExecOverlapping(c, r.Fork(33))
		}
		c10TestScope(c, r.Fork(4))
		if i%40 == 7 {
			c10LongTimer(c, r.Fork(44))
		}
		if i%4 == 2 {
			c10Concurrent(c, r.Fork(5))
		}
	})
}

func timerEvents(log []mon.Event) []mon.Event {
	var out []mon.Event
	for _, e := range log {
		if e.Kind == mon.EvTimer {
			out = append(out, e)
		}
	}
	return out
}

func c10Records(c *mon.Ctx, r *mon.Rand) {
	pool := newStrPool(r, true, false, false)
	rc := pool.root(r)
	mode := []string{"plain", "cached", "both"}[r.Intn(3)]
	// two in five histories configure a sanitizer: the delivery carries the
	// sanitized fully qualified name and the scope's sanitized tags, whichever
	// reporter kind receives it
	if r.Chance(2, 5) {
		rc.San = genSanCfg(r)
		if _, amb := rc.rootIdent(); amb {
			rc.San = nil
		}
	}
	opts := tally.ScopeOptions{Prefix: rc.Prefix, Separator: rc.Sep, Tags: copyTagMap(rc.Tags), OmitCardinalityMetrics: r.Bool(), SanitizeOptions: rc.San.opts()}
	prec, crec := mon.NewPlainRec(true), mon.NewCachedRec(true)
	// what a reporter says about its capabilities (a fan-out with a placeholder
	// child says "not reporting") does not change what timers forward to it
	prec.Caps, crec.Caps = mon.Caps(r.Bool(), r.Bool()), mon.Caps(r.Bool(), r.Bool())
	if mode == "plain" || mode == "both" {
		opts.Reporter = prec
	}
	if mode == "cached" || mode == "both" {
		opts.CachedReporter = crec
	}
	root, _ := vNewRoot(opts, 0, uint(r.Range(0, 4)))
	nsc := r.Range(1, 3)
	type tsc struct {
		id ident
		sc tally.Scope
	}
	var scs []tsc
	var progs []dprog
	for i := 0; i < nsc; i++ {
		p := pool.prog(r, 3)
		progs = append(progs, p)
		ids, amb := rc.trace(p)
		if collides(ids) || amb {
			continue
		}
		ss := p.clone().apply(root)
		scs = append(scs, tsc{ids[len(ids)-1], ss[len(ss)-1]})
	}
	if len(scs) == 0 {
		return
	}
	c.Eval(1)
	var ops []string
	desc := func() interface{} {
		return map[string]interface{}{"root": rc, "reporters": mode, "programs": progs, "ops": ops}
	}
	c.Distinct(mon.Hash64(fmt.Sprint(rc), mode, fmt.Sprint(progs), fmt.Sprint(r.U64())))
	names := []string{"t", "u", pool.names[0], "t m:1/é"}
	nops := r.Range(3, 40)
	// a third of the histories close one of the derived scopes part-way: timers
	// are synchronous pass-throughs, a Record on a closed subscope (old or new
	// timer name, before or after a pass has dropped the scope) is still forwarded
	closeAt, closeWhich := -1, 0
	if r.Chance(1, 3) {
		closeAt, closeWhich = r.Intn(nops), r.Intn(len(scs))
	}
	kept := map[string]tally.Timer{}
	c.Guard("panic-record", desc, func() {
		for i := 0; i < nops; i++ {
			if i == closeAt {
				if cl, ok := scs[closeWhich].sc.(io.Closer); ok && scs[closeWhich].sc != root {
					cl.Close()
					ops = append(ops, fmt.Sprintf("Close scope %q%v", scs[closeWhich].id.Prefix, scs[closeWhich].id.Tags))
					names = append(names, "after-close")
				}
			}
			if r.Chance(1, 4) {
				np, nc := len(timerEvents(logOf(prec))), len(timerEvents(logOf(crec)))
				tally.VerifReportPass(root)
				ops = append(ops, "report pass")
				if len(timerEvents(logOf(prec))) != np || len(timerEvents(logOf(crec))) != nc {
					c.Violation("timer-delivered-by-report-pass", map[string]interface{}{"why": "a report pass delivered timer values", "case": desc()})
				}
				c.Event("report-passes-interleaved", 1)
				continue
			}
			si := r.Intn(len(scs))
			s := scs[si]
			name := names[r.Intn(len(names))]
			d := r.AnyDuration()
			np, nc := prec.LogLen(), crec.LogLen()
			// half of the records go through the handle obtained at the first use of
			// that timer, kept across closes, passes and the creation of other timers
			hk := fmt.Sprint(si, "/", name)
			tm := kept[hk]
			if tm == nil || r.Bool() {
				tm = s.sc.Timer(name)
				if kept[hk] == nil {
					kept[hk] = tm
				}
				ops = append(ops, fmt.Sprintf("Timer(%q).Record(%d) on %q%v", name, d, s.id.Prefix, s.id.Tags))
			} else {
				ops = append(ops, fmt.Sprintf("Record(%d) through the handle kept from the first Timer(%q) on %q%v", d, name, s.id.Prefix, s.id.Tags))
				c.Event("records-through-kept-handles", 1)
			}
			tm.Record(d)
			mark := mon.NextSeq() // "Record returned"
			pe, ce := timerEvents(logOf(prec)[np:]), timerEvents(logOf(crec)[nc:])
			c.Event("records", 1)
			var got []mon.Event
			switch mode {
			case "plain":
				got = pe
				if len(ce) != 0 {
					c.Violation("timer-wrong-reporter", map[string]interface{}{"why": "cached reporter received a timer although none is configured", "case": desc()})
				}
			case "cached", "both":
				got = ce
				if len(pe) != 0 {
					c.Violation("timer-wrong-reporter", map[string]interface{}{"why": "with both reporters configured the plain reporter also received the timer value", "case": desc()})
				}
			}
			if len(got) != 1 {
				c.Violation("timer-not-exactly-once", map[string]interface{}{"why": fmt.Sprintf("Record(%d) produced %d timer deliveries before it returned", d, len(got)), "case": desc()})
				continue
			}
			e := got[0]
			wantName := rc.metricName(s.id, name)
			if e.I != int64(d) || e.Name != wantName || !mon.TagsEqual(e.Tags, s.id.Tags) {
				c.Violation("timer-wrong-delivery", map[string]interface{}{"why": fmt.Sprintf("Record(%d) delivered %d under %q %v, want %q %v", d, e.I, e.Name, e.Tags, wantName, s.id.Tags), "case": desc()})
			}
			if e.Seq >= mark {
				c.Violation("timer-not-synchronous", map[string]interface{}{"why": "delivery is ordered after Record returned", "case": desc()})
			}
		}
		// further passes add nothing
		np, nc := len(timerEvents(logOf(prec))), len(timerEvents(logOf(crec)))
		tally.VerifReportPass(root)
		tally.VerifReportPass(root)
		if len(timerEvents(logOf(prec))) != np || len(timerEvents(logOf(crec))) != nc {
			c.Violation("timer-delivered-by-report-pass", map[string]interface{}{"why": "a report pass delivered timer values", "case": desc()})
		}
	})
	if c.WantSample() {
		c.Sample(desc())
	}
}

func logOf(x interface {
	Snapshot() ([]mon.Event, map[string]mon.Agg, map[mon.EvKind]int64)
}) []mon.Event {
	l, _, _ := x.Snapshot()
	return l
}

func c10Stopwatch(c *mon.Ctx, r *mon.Rand) {
	prec := mon.NewPlainRec(true)
	root, _ := vNewRoot(tally.ScopeOptions{Reporter: prec, OmitCardinalityMetrics: true}, 0, 1)
	c.Eval(1)
	useHist := r.Bool()
	sleep := time.Duration(r.Range(0, 3000)) * time.Microsecond
	if useHist {
		b := tally.MustMakeLinearDurationBuckets(0, 100*time.Microsecond, 64)
		h := root.Histogram("h", b)
		t0 := time.Now()
		sw := h.Start()
		t1 := time.Now()
		time.Sleep(sleep)
		t2 := time.Now()
		sw.Stop()
		t3 := time.Now()
		lo, hi := t2.Sub(t1), t3.Sub(t0)
		tally.VerifReportPass(root)
		var evs []mon.Event
		for _, e := range logOf(prec) {
			if e.Kind == mon.EvHistD {
				evs = append(evs, e)
			}
		}
		c.Event("histogram-stopwatches", 1)
		if len(evs) != 1 || evs[0].I != 1 {
			c.Violation("stopwatch-histogram-count", fmt.Sprintf("one Start/Stop on a duration histogram produced %d bucket deliveries", len(evs)))
			return
		}
		e := evs[0]
		// the bucket (LoD,HiD] must intersect the bracket [lo,hi]
		if e.HiD < lo || e.LoD >= hi {
			c.Violation("stopwatch-elapsed", fmt.Sprintf("histogram stopwatch counted in bucket (%v,%v] but the elapsed time is bracketed by [%v,%v] (slept %v)", e.LoD, e.HiD, lo, hi, sleep))
		}
		return
	}
	tm := root.Timer("t")
	t0 := time.Now()
	sw := tm.Start()
	t1 := time.Now()
	time.Sleep(sleep)
	t2 := time.Now()
	sw.Stop()
	t3 := time.Now()
	lo, hi := t2.Sub(t1), t3.Sub(t0)
	evs := timerEvents(logOf(prec))
	c.Event("timer-stopwatches", 1)
	if len(evs) != 1 {
		c.Violation("stopwatch-count", fmt.Sprintf("one Start/Stop produced %d timer deliveries", len(evs)))
		return
	}
	d := time.Duration(evs[0].I)
	if d < lo || d > hi {
		c.Violation("stopwatch-elapsed", fmt.Sprintf("stopwatch recorded %v but the elapsed time is bracketed by [%v,%v] (slept %v)", d, lo, hi, sleep))
	}
	// stopwatches built with NewStopwatch from a start in the future (an hour,
	// fifty years: a negative elapsed time is recorded as it is) or in the past
	// (an hour, a century, more than a Duration can hold, the zero time): the
	// elapsed time as Time.Sub computes it (saturating), never wrapped or clamped
	if sr, ok := tm.(tally.StopwatchRecorder); ok {
		for _, start := range []time.Time{time.Now().Add(time.Hour), time.Now().AddDate(50, 0, 0), time.Now().Add(-time.Hour), time.Now().AddDate(-100, 0, 0), time.Now().AddDate(-400, 0, 0), {}, time.Unix(0, 0), time.Date(1677, 1, 1, 0, 0, 0, 0, time.UTC)} {
			n0 := len(timerEvents(logOf(prec)))
			before := time.Now().Sub(start)
			tally.NewStopwatch(start, sr).Stop()
			after := time.Now().Sub(start)
			evs := timerEvents(logOf(prec))
			if len(evs) != n0+1 {
				c.Violation("stopwatch-count", fmt.Sprintf("one NewStopwatch/Stop produced %d timer deliveries", len(evs)-n0))
				break
			}
			if d := time.Duration(evs[n0].I); d < before || d > after {
				c.Violation("stopwatch-elapsed", fmt.Sprintf("a stopwatch with the start %v recorded %v; the elapsed time is bracketed by [%v,%v]", start, d, before, after))
			}
			c.Event("stopwatches-with-a-start-in-the-past", 1)
		}
	}
	c.Distinct(mon.Hash64(fmt.Sprint(sleep, useHist)))
}

func c10Exec(c *mon.Ctx, r *mon.Rand, withSleep bool) {
	cached := r.Bool()
	prec, crec := mon.NewPlainRec(true), mon.NewCachedRec(true)
	sepArg := r.Pick("", ".", "_", ":", "__")
	sep := sepArg
	if sep == "" {
		sep = "."
	}
	opts := tally.ScopeOptions{OmitCardinalityMetrics: true, Prefix: r.Pick("", "svc"), Separator: sepArg}
	if cached {
		opts.CachedReporter = crec
	} else {
		opts.Reporter = prec
	}
	root, _ := vNewRoot(opts, 0, uint(r.Range(0, 3)))
	var sc tally.Scope = root
	if r.Bool() {
		sc = root.SubScope("sub")
	}
	name := r.Pick("call", "rpc", "x")
	call := instrument.NewCall(sc, name)
	n := r.Range(1, 8)
	// a third of the histories on a subscope: the component that owns the scope
	// closes it (and a pass runs) while the Call is still in use
	closeAt := -1
	if sc != tally.Scope(root) && r.Chance(1, 3) {
		closeAt = r.Intn(n)
	}
	c.Eval(1)
	var wantOK, wantErr, typedNil, panics int64
	var outcomes []string
	desc := func() interface{} {
		return map[string]interface{}{"cached": cached, "prefix": opts.Prefix, "separator": sepArg, "name": name, "outcomes": outcomes}
	}
	var minLatency []time.Duration
	c.Guard("panic-exec", desc, func() {
		for i := 0; i < n; i++ {
			if i == closeAt {
				if cl, ok := sc.(io.Closer); ok {
					cl.Close()
					outcomes = append(outcomes, "(scope closed)")
					if r.Bool() {
						tally.VerifReportPass(root)
						outcomes = append(outcomes, "(report pass)")
					}
				}
			}
			if r.Chance(1, 10) {
				// the instrumented function panics and the caller recovers further up
				// (as servers do): the call moves at most one of the two counters and
				// records at most one latency
				panics++
				outcomes = append(outcomes, "panic")
				ran := 0
				func() {
					defer func() { recover() }()
					call.Exec(func() error {
						ran++
						panic("instrumented function panics")
					})
				}()
				if ran != 1 {
					c.Violation("exec-ran-not-once", map[string]interface{}{"why": fmt.Sprintf("function ran %d times", ran), "case": desc()})
				}
				continue
			}
			var retErr error
			if r.Chance(1, 8) {
				// an error value that holds a nil pointer: not nil, returned as it is;
				// which of the two counters it moves is not prescribed
				retErr = (*c10TypedErr)(nil)
				typedNil++
				outcomes = append(outcomes, "error holding a nil pointer")
			} else if r.Bool() {
				retErr = errors.New(fmt.Sprintf("err-%d", i))
				// errors an instrumented client call really returns: any non-nil error
				// moves the error counter, whatever it is or wraps
				switch r.Intn(8) {
				case 0:
					retErr = context.Canceled
				case 1:
					retErr = context.DeadlineExceeded
				case 2:
					retErr = fmt.Errorf("call %d: %w", i, context.Canceled)
				case 3:
					retErr = io.EOF
				case 4:
					retErr = fmt.Errorf("call %d: %w", i, io.ErrUnexpectedEOF)
				}
				wantErr++
				outcomes = append(outcomes, "error "+retErr.Error())
			} else {
				wantOK++
				outcomes = append(outcomes, "nil")
			}
			ran := 0
			var sl time.Duration
			if withSleep {
				sl = time.Duration(r.Range(0, 1500)) * time.Microsecond
			}
			minLatency = append(minLatency, sl)
			got := call.Exec(func() error {
				ran++
				if sl > 0 {
					time.Sleep(sl)
				}
				return retErr
			})
			if ran != 1 {
				c.Violation("exec-ran-not-once", map[string]interface{}{"why": fmt.Sprintf("function ran %d times", ran), "case": desc()})
			}
			if got != retErr {
				c.Violation("exec-error-changed", map[string]interface{}{"why": fmt.Sprintf("Exec returned %v, function returned %v", got, retErr), "case": desc()})
			}
		}
		tally.VerifReportPass(root)
	})
	var log []mon.Event
	if cached {
		log = logOf(crec)
	} else {
		log = logOf(prec)
	}
	var gotOK, gotErr int64
	var lat []mon.Event
	base := mon.RefName(opts.Prefix, sep, func() []string {
		if sc != tally.Scope(root) {
			return []string{"sub"}
		}
		return nil
	}()...)
	cname := mon.RefName(base, sep, name)
	for _, e := range log {
		switch e.Kind {
		case mon.EvCounter:
			if e.Name == cname && e.Tags["result_type"] == "success" && len(e.Tags) == 1 {
				gotOK += e.I
			} else if e.Name == cname && e.Tags["result_type"] == "error" && len(e.Tags) == 1 {
				gotErr += e.I
			} else {
				c.Violation("exec-unexpected-counter", map[string]interface{}{"why": fmt.Sprintf("counter %q %v", e.Name, e.Tags), "case": desc()})
			}
		case mon.EvTimer:
			if e.Name != mon.RefName(cname, sep, "latency") {
				c.Violation("exec-unexpected-timer", map[string]interface{}{"why": fmt.Sprintf("timer %q", e.Name), "case": desc()})
			}
			lat = append(lat, e)
		}
	}
	c.Event("exec-calls", int64(n))
	if gotOK < wantOK || gotErr < wantErr || gotOK+gotErr < wantOK+wantErr+typedNil || gotOK+gotErr > wantOK+wantErr+typedNil+panics {
		c.Violation("exec-counters", map[string]interface{}{"why": fmt.Sprintf("success/error counters moved by %d/%d, outcomes were %d/%d", gotOK, gotErr, wantOK, wantErr), "case": desc()})
	}
	if int64(len(lat)) > int64(n) || int64(len(lat)) < int64(n)-panics {
		c.Violation("exec-latency-count", map[string]interface{}{"why": fmt.Sprintf("%d latencies recorded for %d calls (%d of them panicked)", len(lat), n, panics), "case": desc()})
	} else if panics == 0 {
		for i, e := range lat {
			if time.Duration(e.I) < minLatency[i] {
				c.Violation("exec-latency-value", map[string]interface{}{"why": fmt.Sprintf("call %d slept %v inside the function but a latency of %v was recorded", i, minLatency[i], time.Duration(e.I)), "case": desc()})
			}
		}
	}
	c.Distinct(mon.Hash64(fmt.Sprint(cached, opts.Prefix, sepArg, name, outcomes)))
}

// snapTimer returns the snapshot entries with the given name and tags.
func snapTimers(ts tally.TestScope, name string, tags map[string]string) [][]time.Duration {
	var out [][]time.Duration
	for _, t := range ts.Snapshot().Timers() {
		if t.Name() == name && mon.TagsEqual(t.Tags(), tags) {
			out = append(out, append([]time.Duration(nil), t.Values()...))
			// what a snapshot hands out is the caller's: sorting, reversing or
			// overwriting the values must not change what later snapshots show
			vs := t.Values()
			for i, j := 0, len(vs)-1; i < j; i, j = i+1, j-1 {
				vs[i], vs[j] = vs[j], vs[i]
			}
			if len(vs) > 0 {
				vs[0] = -12345
			}
		}
	}
	return out
}

// c10TestScope: reporter-less test scopes keep every recorded duration, in
// call order, whatever passes run in between.
func c10TestScope(c *mon.Ctx, r *mon.Rand) {
	pool := newStrPool(r, true, false, false)
	rc := pool.root(r)
	rc.Sep = "."
	ts := vNewTest(rc.Prefix, copyTagMap(rc.Tags), uint(r.Range(0, 4)))
	type tsc struct {
		id ident
		sc tally.Scope
	}
	var scs []tsc
	var progs []dprog
	for i, n := 0, r.Range(1, 3); i < n; i++ {
		p := pool.prog(r, 3)
		ids, _ := rc.trace(p)
		if collides(ids) {
			continue
		}
		progs = append(progs, p)
		ss := p.clone().apply(ts)
		scs = append(scs, tsc{ids[len(ids)-1], ss[len(ss)-1]})
	}
	if len(scs) == 0 {
		return
	}
	c.Eval(1)
	var ops []string
	desc := func() interface{} {
		return map[string]interface{}{"root": rc, "reporters": "none (test scope)", "programs": progs, "ops": ops}
	}
	names := []string{"t", "u", pool.names[0]}
	want := map[string][]time.Duration{}
	type tk struct {
		name string
		tags map[string]string
	}
	keys := map[string]tk{}
	check := func(when string) {
		for k, w := range want {
			got := snapTimers(ts, keys[k].name, keys[k].tags)
			if len(got) != 1 {
				c.Violation("testscope-timer-entry", map[string]interface{}{"why": fmt.Sprintf("%s: %d snapshot entries for timer %q %v, want 1", when, len(got), keys[k].name, keys[k].tags), "case": desc()})
				continue
			}
			if fmt.Sprint(got[0]) != fmt.Sprint(w) {
				c.Violation("testscope-timer-values", map[string]interface{}{"why": fmt.Sprintf("%s: timer %q %v holds %v, recorded in order %v", when, keys[k].name, keys[k].tags, got[0], w), "case": desc()})
			}
		}
	}
	c.Guard("panic-record-testscope", desc, func() {
		for i, n := 0, r.Range(3, 30); i < n; i++ {
			switch {
			case r.Chance(1, 6):
				tally.VerifReportPass(ts)
				ops = append(ops, "report pass")
			case r.Chance(1, 6):
				check("mid-history")
				ops = append(ops, "snapshot")
			case r.Chance(1, 10):
				// closing a derived test scope takes nothing away: what its timers
				// recorded stays in the snapshots, and later Records are added
				s := scs[r.Intn(len(scs))]
				if cl, ok := s.sc.(io.Closer); ok && s.sc != tally.Scope(ts) {
					cl.Close()
					ops = append(ops, fmt.Sprintf("Close scope %q%v", s.id.Prefix, s.id.Tags))
					c.Event("testscope-subscope-closes", 1)
				}
			default:
				s := scs[r.Intn(len(scs))]
				name := names[r.Intn(len(names))]
				d := r.AnyDuration()
				ops = append(ops, fmt.Sprintf("Timer(%q).Record(%d) on %q%v", name, d, s.id.Prefix, s.id.Tags))
				if r.Chance(1, 5) {
					sw := s.sc.Timer(name).Start()
					_ = sw
				}
				s.sc.Timer(name).Record(d)
				full := rc.metricName(s.id, name)
				k := mon.IdentKey(full, s.id.Tags)
				want[k] = append(want[k], d)
				keys[k] = tk{full, s.id.Tags}
				c.Event("testscope-records", 1)
			}
		}
		tally.VerifReportPass(ts)
		check("at the end")
	})
	c.Distinct(mon.Hash64("ts", fmt.Sprint(rc), fmt.Sprint(progs), fmt.Sprint(ops)))
}

// c10Concurrent: G goroutines released together obtain the same (not yet
// existing) timers of one scope and record unique durations; each Record must
// be delivered exactly once, synchronously, and a test scope must keep all of
// them with each goroutine's values in its own call order.
func c10Concurrent(c *mon.Ctx, r *mon.Rand) {
	mode := []string{"test", "plain", "cached", "both"}[r.Intn(4)]
	prof := mon.RandomProfile(r, []int{tally.VerifMetricProbeMissed, tally.VerifSubscopeUpgrade}, r.Intn(3))
	prof.Prob[tally.VerifMetricProbeMissed] = r.Range(300, 900)
	inj := mon.NewDelayInjector(r.U64(), prof, false)
	inj.Install()
	defer inj.Uninstall()
	prec, crec := mon.NewPlainRec(true), mon.NewCachedRec(true)
	var root tally.Scope
	var ts tally.TestScope
	if mode == "test" {
		ts = vNewTest("p", map[string]string{"k": "v"}, uint(r.Range(0, 4)))
		root = ts
	} else {
		opts := tally.ScopeOptions{Prefix: "p", Tags: map[string]string{"k": "v"}, OmitCardinalityMetrics: true}
		if mode == "plain" || mode == "both" {
			opts.Reporter = prec
		}
		if mode == "cached" || mode == "both" {
			opts.CachedReporter = crec
		}
		root, _ = vNewRoot(opts, 0, uint(r.Range(0, 4)))
	}
	sc := root
	scName, scTags := "p", map[string]string{"k": "v"}
	if r.Bool() {
		sc = root.SubScope("s")
		scName = "p.s"
	}
	G := r.Range(2, 8)
	rounds := r.Range(1, 6)
	per := r.Range(1, 4)
	c.Eval(1)
	desc := map[string]interface{}{"mode": mode, "goroutines": G, "rounds": rounds, "records_per_goroutine_and_round": per, "scope": scName}
	stop := c.Watchdog(300*time.Second, "no-progress", desc)
	defer stop()
	type rec struct {
		name string
		d    time.Duration
		mark int64
	}
	all := make([][]rec, G)
	var panics sync.Map
	for round := 0; round < rounds; round++ {
		name := fmt.Sprintf("t%d", round)
		var start, done sync.WaitGroup
		start.Add(1)
		for g := 0; g < G; g++ {
			g := g
			done.Add(1)
			go func() {
				defer done.Done()
				defer func() {
					if p := recover(); p != nil {
						panics.Store(g, fmt.Sprint(p))
					}
				}()
				start.Wait()
				for k := 0; k < per; k++ {
					d := time.Duration(int64(round)<<40 | int64(g)<<20 | int64(k) + 1)
					sc.Timer(name).Record(d)
					all[g] = append(all[g], rec{name, d, mon.NextSeq()})
				}
			}()
		}
		start.Done()
		done.Wait()
		if r.Bool() {
			tally.VerifReportPass(root)
		}
	}
	panics.Range(func(k, v interface{}) bool {
		c.Violation("panic-concurrent-record", map[string]interface{}{"why": v, "case": desc})
		return true
	})
	c.Event("concurrent-first-use-records", int64(G*rounds*per))
	if mode == "test" {
		for round := 0; round < rounds; round++ {
			name := fmt.Sprintf("t%d", round)
			got := snapTimers(ts, scName+"."+name, scTags)
			if len(got) != 1 {
				c.Violation("testscope-timer-entry", map[string]interface{}{"why": fmt.Sprintf("%d snapshot entries for %q", len(got), name), "case": desc})
				continue
			}
			pos := map[time.Duration]int{}
			for i, d := range got[0] {
				if _, dup := pos[d]; dup {
					c.Violation("timer-not-exactly-once", map[string]interface{}{"why": fmt.Sprintf("value %d twice in the snapshot of %q", d, name), "case": desc})
				}
				pos[d] = i
			}
			n := 0
			for g := 0; g < G; g++ {
				last := -1
				for _, x := range all[g] {
					if x.name != name {
						continue
					}
					n++
					p, ok := pos[x.d]
					if !ok {
						c.Violation("timer-not-exactly-once", map[string]interface{}{"why": fmt.Sprintf("Record(%d) by goroutine %d on %q (concurrent first use) is missing from the test scope's snapshot (%d of %d values present)", x.d, g, name, len(got[0]), G*per), "case": desc})
						break
					}
					if p < last {
						c.Violation("testscope-timer-values", map[string]interface{}{"why": fmt.Sprintf("goroutine %d's values of %q are not in call order", g, name), "case": desc})
					}
					last = p
				}
			}
			if len(got[0]) != n {
				c.Violation("timer-not-exactly-once", map[string]interface{}{"why": fmt.Sprintf("%q holds %d values, %d recorded", name, len(got[0]), n), "case": desc})
			}
		}
	} else {
		var log []mon.Event
		var other []mon.Event
		if mode == "plain" {
			log, other = timerEvents(logOf(prec)), timerEvents(logOf(crec))
		} else {
			log, other = timerEvents(logOf(crec)), timerEvents(logOf(prec))
		}
		if len(other) != 0 {
			c.Violation("timer-wrong-reporter", map[string]interface{}{"why": fmt.Sprintf("%d timer deliveries on the reporter that must not receive any", len(other)), "case": desc})
		}
		seen := map[int64]mon.Event{}
		cnt := map[int64]int{}
		for _, e := range log {
			seen[e.I] = e
			cnt[e.I]++
		}
		n := 0
		for g := 0; g < G; g++ {
			for _, x := range all[g] {
				n++
				e, ok := seen[int64(x.d)]
				if !ok || cnt[int64(x.d)] != 1 {
					c.Violation("timer-not-exactly-once", map[string]interface{}{"why": fmt.Sprintf("Record(%d) (concurrent first use of %q) was delivered %d times", x.d, x.name, cnt[int64(x.d)]), "case": desc})
					continue
				}
				if e.Name != scName+"."+x.name || !mon.TagsEqual(e.Tags, scTags) {
					c.Violation("timer-wrong-delivery", map[string]interface{}{"why": fmt.Sprintf("delivered under %q %v", e.Name, e.Tags), "case": desc})
				}
				if e.Seq >= x.mark {
					c.Violation("timer-not-synchronous", map[string]interface{}{"why": "delivery ordered after Record returned", "case": desc})
				}
			}
		}
		if len(log) != n {
			c.Violation("timer-not-exactly-once", map[string]interface{}{"why": fmt.Sprintf("%d deliveries for %d records", len(log), n), "case": desc})
		}
	}
	c.Distinct(mon.Hash64("conc", mode, fmt.Sprint(G, rounds, per, scName), fmt.Sprint(r.U64())))
}

// c10TypedErr: a pointer error type whose nil pointer is used as an error value.
type c10TypedErr struct{}

func (*c10TypedErr) Error() string { return "typed nil" }

// c10LongTimer: a long record history on a single timer of a reporter-less
// scope: every Record is one delivery, none is dropped however many there are.
func c10LongTimer(c *mon.Ctx, r *mon.Rand) {
	ts := vNewTest("p", nil, uint(r.Range(0, 2)))
	n := r.Range(16000, 40000)
	tm := ts.SubScope("s").Timer("long")
	for i := 0; i < n; i++ {
		tm.Record(time.Duration(i + 1))
		if i%9000 == 8999 {
			ts.Snapshot()
		}
	}
	c.Eval(1)
	c.Event("testscope-records", int64(n))
	got := snapTimers(ts, "p.s.long", map[string]string{})
	if len(got) != 1 {
		c.Violation("testscope-timer-entry", map[string]interface{}{"why": fmt.Sprintf("%d snapshot entries for the timer", len(got)), "records": n})
		return
	}
	if len(got[0]) != n {
		c.Violation("timer-not-exactly-once", map[string]interface{}{"why": fmt.Sprintf("%d Records on one timer of a test scope, the snapshot holds %d values", n, len(got[0]))})
		return
	}
	for i, d := range got[0] {
		if d != time.Duration(i+1) {
			c.Violation("testscope-timer-values", map[string]interface{}{"why": fmt.Sprintf("value %d of %d is %d, recorded %d", i, n, d, i+1)})
			break
		}
	}
	c.Distinct(mon.Hash64("long", fmt.Sprint(n)))
}

// c10ExecOverlapping: one instrumented Call used by several goroutines at the
// same time and re-entrantly (the instrumented function calls Exec on the same
// Call). Every execution sleeps for a time of its own; whichever way the
// recorded latencies are matched with executions, the k-th smallest latency is
// at least the k-th smallest sleep, and every execution moves one counter.
func c10ExecOverlapping(c *mon.Ctx, r *mon.Rand) {
	prec := mon.NewPlainRec(true)
	root, _ := vNewRoot(tally.ScopeOptions{Reporter: prec, OmitCardinalityMetrics: true}, 0, 1)
	call := instrument.NewCall(root, "op")
	G := r.Range(2, 5)
	var mu sync.Mutex
	var sleeps []time.Duration
	slept := func(d time.Duration) {
		time.Sleep(d)
		mu.Lock()
		sleeps = append(sleeps, d)
		mu.Unlock()
	}
	var wg sync.WaitGroup
	for g := 0; g < G; g++ {
		wg.Add(1)
		outer := time.Duration(r.Range(2000, 6000)) * time.Microsecond
		inner := time.Duration(r.Range(100, 900)) * time.Microsecond
		nested := r.Bool()
		go func() {
			defer wg.Done()
			call.Exec(func() error {
				if nested {
					time.Sleep(outer - inner)
					call.Exec(func() error { slept(inner); return nil })
					mu.Lock()
					sleeps = append(sleeps, outer)
					mu.Unlock()
					return nil
				}
				slept(outer)
				return nil
			})
		}()
	}
	wg.Wait()
	tally.VerifReportPass(root)
	var lats []time.Duration
	var moved int64
	for _, e := range logOf(prec) {
		switch e.Kind {
		case mon.EvTimer:
			lats = append(lats, time.Duration(e.I))
		case mon.EvCounter:
			moved += e.I
		}
	}
	sort.Slice(lats, func(i, j int) bool { return lats[i] < lats[j] })
	sort.Slice(sleeps, func(i, j int) bool { return sleeps[i] < sleeps[j] })
	desc := map[string]interface{}{"executions": len(sleeps), "time_spent_inside_each_sorted": fmt.Sprint(sleeps), "latencies_recorded_sorted": fmt.Sprint(lats)}
	if len(lats) != len(sleeps) || moved != int64(len(sleeps)) {
		c.Violation("exec-latency-count", map[string]interface{}{"why": fmt.Sprintf("%d executions (some overlapping or nested) recorded %d latencies and moved the counters by %d", len(sleeps), len(lats), moved), "case": desc})
		return
	}
	for k := range lats {
		if lats[k] < sleeps[k] {
			c.Violation("exec-latency-value", map[string]interface{}{"why": fmt.Sprintf("the %d-th smallest recorded latency is %v but the %d-th shortest execution spent at least %v inside the instrumented function", k, lats[k], k, sleeps[k]), "case": desc})
			return
		}
	}
	c.Event("overlapping-exec-calls", int64(len(sleeps)))
}
