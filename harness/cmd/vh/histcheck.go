package main

import (
	"fmt"
	"math"
	"time"

	"verifharness/mon"
)

// histExpect describes one histogram the harness created and recorded on.
type histExpect struct {
	Name     string          `json:"name"` // full reported name
	IsDur    bool            `json:"is_duration"`
	V        []float64       `json:"values,omitempty"`
	D        []time.Duration `json:"durations,omitempty"`
	SamplesV []float64       `json:"-"`
	SamplesD []time.Duration `json:"-"`
	Mult     int64           `json:"rounds"`
}

// checkHistLog compares everything a recorder saw for one histogram with the
// reference model: allocation calls tile (cached), every delivered tuple is a
// pair of the sorted spec, per-upper-bound counts equal the reference.
func checkHistLog(c *mon.Ctx, kind string, cached bool, log []mon.Event, he histExpect, ctx interface{}) {
	bad := func(sig, why string) {
		c.Violation(sig+"/"+kind, map[string]interface{}{"why": why, "histogram": he, "context": ctx})
	}
	pairsV := mon.RefPairsV(he.V)
	pairsD := mon.RefPairsD(he.D)
	var allocV []mon.PairV
	var allocD []mon.PairD
	gotV := map[float64]int64{}
	gotD := map[time.Duration]int64{}
	for _, ev := range log {
		if ev.Name != he.Name {
			continue
		}
		switch ev.Kind {
		case mon.EvBucketV:
			allocV = append(allocV, mon.PairV{Lo: ev.Lo, Hi: ev.Hi})
		case mon.EvBucketD:
			allocD = append(allocD, mon.PairD{Lo: ev.LoD, Hi: ev.HiD})
		case mon.EvHistV:
			if he.IsDur {
				bad("wrong-type-delivery", "value samples delivered for a duration histogram")
				continue
			}
			if !memberV(pairsV, ev.Lo, ev.Hi) {
				bad("bucket-not-in-tiling", fmt.Sprintf("delivered value bucket (%s,%s] is not a pair of this histogram's sorted spec", fstr(ev.Lo), fstr(ev.Hi)))
			}
			gotV[ev.Hi] += ev.I
		case mon.EvHistD:
			if !he.IsDur {
				bad("wrong-type-delivery", "duration samples delivered for a value histogram")
				continue
			}
			if !memberD(pairsD, ev.LoD, ev.HiD) {
				bad("bucket-not-in-tiling", fmt.Sprintf("delivered duration bucket (%d,%d] is not a pair of this histogram's sorted spec", ev.LoD, ev.HiD))
			}
			gotD[ev.HiD] += ev.I
		}
	}
	if cached {
		if he.IsDur {
			if len(allocD) != len(pairsD) {
				bad("tiling", fmt.Sprintf("allocated %d duration buckets, reference has %d: %v", len(allocD), len(pairsD), allocD))
			} else {
				for i := range allocD {
					if allocD[i] != pairsD[i] {
						bad("tiling", fmt.Sprintf("bucket %d is (%d,%d], reference (%d,%d]", i, allocD[i].Lo, allocD[i].Hi, pairsD[i].Lo, pairsD[i].Hi))
						break
					}
				}
			}
		} else {
			if len(allocV) != len(pairsV) {
				bad("tiling", fmt.Sprintf("allocated %d value buckets, reference has %d: %v", len(allocV), len(pairsV), allocV))
			} else {
				for i := range allocV {
					if allocV[i] != pairsV[i] {
						bad("tiling", fmt.Sprintf("bucket %d is (%s,%s], reference (%s,%s]", i, fstr(allocV[i].Lo), fstr(allocV[i].Hi), fstr(pairsV[i].Lo), fstr(pairsV[i].Hi)))
						break
					}
				}
			}
		}
	}
	checkHistCounts(c, kind, gotV, gotD, he, ctx)
	checkHistPairs(c, kind, log, he, ctx)
}

// checkHistPairs: through a reporter the bucket is identified by (lower,
// upper): each sample must be counted in the first bucket of the sorted
// tiling whose upper bound is >= the sample (with duplicated bounds that is
// the only one whose interval contains it).
func checkHistPairs(c *mon.Ctx, kind string, log []mon.Event, he histExpect, ctx interface{}) {
	if he.IsDur {
		pairs := mon.RefPairsD(he.D)
		exp := make([]int64, len(pairs))
		for _, x := range he.SamplesD {
			exp[mon.RefPairIndexD(he.D, x)] += he.Mult
		}
		got := map[mon.PairD]int64{}
		for _, ev := range log {
			if ev.Name == he.Name && ev.Kind == mon.EvHistD {
				got[mon.PairD{Lo: ev.LoD, Hi: ev.HiD}] += ev.I
			}
		}
		want := map[mon.PairD]int64{}
		for i, p := range pairs {
			want[p] += exp[i]
		}
		for p, n := range want {
			if got[p] != n {
				c.Violation("wrong-bucket-pair/"+kind, map[string]interface{}{"why": fmt.Sprintf("bucket (%d,%d]: %d samples delivered, reference %d", p.Lo, p.Hi, got[p], n), "histogram": he, "context": ctx})
				return
			}
		}
		return
	}
	pairs := mon.RefPairsV(he.V)
	want := map[mon.PairV]int64{}
	var nan int64
	for _, x := range he.SamplesV {
		if i := mon.RefPairIndexV(he.V, x); i >= 0 {
			want[pairs[i]] += he.Mult
		} else {
			nan += he.Mult
		}
	}
	got := map[mon.PairV]int64{}
	for _, ev := range log {
		if ev.Name == he.Name && ev.Kind == mon.EvHistV {
			got[mon.PairV{Lo: ev.Lo, Hi: ev.Hi}] += ev.I
		}
	}
	var extra int64
	seenPair := map[mon.PairV]bool{}
	for _, p := range pairs {
		if seenPair[p] {
			continue
		}
		seenPair[p] = true
		if got[p] < want[p] {
			c.Violation("wrong-bucket-pair/"+kind, map[string]interface{}{"why": fmt.Sprintf("bucket (%s,%s]: %d samples delivered, reference %d", fstr(p.Lo), fstr(p.Hi), got[p], want[p]), "histogram": he, "context": ctx})
			return
		}
		extra += got[p] - want[p]
	}
	if extra > nan {
		c.Violation("wrong-bucket-pair/"+kind, map[string]interface{}{"why": fmt.Sprintf("%d samples beyond the reference per-bucket counts with %d NaNs recorded", extra, nan), "histogram": he, "context": ctx})
	}
}

func checkHistCounts(c *mon.Ctx, kind string, gotV map[float64]int64, gotD map[time.Duration]int64, he histExpect, ctx interface{}) {
	bad := func(sig, why string) {
		c.Violation(sig+"/"+kind, map[string]interface{}{"why": why, "histogram": he, "context": ctx})
	}
	if he.IsDur {
		exp := map[time.Duration]int64{}
		for _, x := range he.SamplesD {
			exp[mon.RefUpperD(he.D, x)] += he.Mult
		}
		for u, n := range exp {
			if gotD[u] != n {
				bad("wrong-bucket", fmt.Sprintf("upper bound %d: delivered %d samples, reference %d; got %v", u, gotD[u], n, gotD))
			}
		}
		for u, n := range gotD {
			if _, ok := exp[u]; !ok && n != 0 {
				bad("wrong-bucket", fmt.Sprintf("upper bound %d: delivered %d samples, reference 0", u, n))
			}
		}
		return
	}
	exp := map[float64]int64{}
	var nan int64
	for _, x := range he.SamplesV {
		if hi, ok := mon.RefUpperV(he.V, x); ok {
			exp[hi] += he.Mult
		} else {
			nan += he.Mult
		}
	}
	var extra int64
	for u, n := range exp {
		g := gotV[u]
		if g < n {
			bad("wrong-bucket", fmt.Sprintf("upper bound %s: delivered %d samples, reference %d; got %v", fstr(u), g, n, gotV))
		}
		extra += g - n
	}
	for u, n := range gotV {
		if _, ok := exp[u]; !ok {
			extra += n
			if n != 0 && nan == 0 {
				bad("wrong-bucket", fmt.Sprintf("upper bound %s: delivered %d samples, reference 0", fstr(u), n))
			}
		}
	}
	if extra < 0 || extra > nan {
		bad("wrong-bucket", fmt.Sprintf("%d samples beyond the reference counts with %d NaNs recorded: %v", extra, nan, gotV))
	}
	_ = math.NaN
}
