package main

import (
	"bytes"
	"fmt"
	customtransport "github.com/uber-go/tally/v4/m3/customtransports"
	"github.com/uber-go/tally/v4/thirdparty/github.com/apache/thrift/lib/go/thrift"
	"math"
	"strings"
	"time"

	"github.com/uber-go/tally/v4/m3"
	m3thrift "github.com/uber-go/tally/v4/m3/thrift/v2"

	"verifharness/mon"
)

func init() { register("C16", runC16) }

// one reused encoder/calculator per protocol for the whole batch of cases, so
// that protocol state carried across structures would show.
func runC16(c *mon.Ctx) {
	encs := map[m3.Protocol]*encoder{m3.Compact: newEncoder(m3.Compact), m3.Binary: newEncoder(m3.Binary)}
	calcs := map[m3.Protocol]*calculator{m3.Compact: newCalculator(m3.Compact), m3.Binary: newCalculator(m3.Binary)}
	c.Cases(func(i int, r *mon.Rand) {
		if c.Only >= 0 {
			// replay: rebuild the protocol state by running the preceding cases
			for j := 0; j < c.Only; j++ {
				c16Case(nil, c.CaseRand(j), encs, calcs)
			}
		}
		c16Case(c, r, encs, calcs)
		c16Utilities(c, r.Fork(55))
		if i%6 == 0 {
			// the reporter's own use of the calculator: the size it charges for a
			// metric (measured with maximal placeholder values) must bound what the
			// metric occupies when emitted, whatever was allocated before it
			c12Life(c, r.Fork(77), "reporter-size")
		}
	})
}

func genBytes(r *mon.Rand, max int) string {
	n := r.Intn(max + 1)
	switch r.Intn(6) {
	case 0:
		n = 0
	case 1:
		n = r.Range(120, 135) // around the 1-byte varint length limit
		if r.Bool() {
			// exactly at, one below and one above the sizes of the codec's scratch
			// buffers and of the varint length steps
			n = []int{63, 64, 65, 127, 128, 129, 255, 256}[r.Intn(8)]
		}
	case 2:
		if max >= 1024 {
			n = r.Range(1000, 1024)
		}
	}
	b := make([]byte, n)
	for i := range b {
		if r.Chance(1, 3) {
			b[i] = byte(r.Intn(256))
		} else {
			b[i] = byte('a' + r.Intn(26))
		}
	}
	return string(b)
}

func genTags(r *mon.Rand, max int) []m3thrift.MetricTag {
	switch r.Intn(8) {
	case 0:
		return nil
	case 1:
		return []m3thrift.MetricTag{}
	}
	n := r.Intn(max + 1)
	if r.Chance(1, 4) {
		n = r.Range(13, 16) // around the compact short-list limit of 14
		if n > max {
			n = max
		}
	}
	t := make([]m3thrift.MetricTag, n)
	for i := range t {
		t[i] = m3thrift.MetricTag{Name: genBytes(r, 24), Value: genBytes(r, 40)}
	}
	return t
}

func genMetric(r *mon.Rand) m3thrift.Metric {
	m := m3thrift.Metric{Name: genBytes(r, 1024), Timestamp: r.AnyInt64(), Tags: genTags(r, 16)}
	switch r.Intn(4) {
	case 0:
		m.Value.MetricType = m3thrift.MetricType_COUNTER
	case 1:
		m.Value.MetricType = m3thrift.MetricType_GAUGE
	case 2:
		m.Value.MetricType = m3thrift.MetricType_TIMER
	default:
		m.Value.MetricType = m3thrift.MetricType(r.Range(-2, 5)) // incl. invalid and zero
	}
	m.Value.Count = r.AnyInt64()
	m.Value.Timer = r.AnyInt64()
	m.Value.Gauge = r.AnyFloat()
	if r.Chance(1, 3) {
		// as the reporter builds them: only the field of the type is set
		switch m.Value.MetricType {
		case m3thrift.MetricType_COUNTER:
			m.Value.Timer, m.Value.Gauge = 0, 0
		case m3thrift.MetricType_GAUGE:
			m.Value.Count, m.Value.Timer = 0, 0
		case m3thrift.MetricType_TIMER:
			m.Value.Count, m.Value.Gauge = 0, 0
		}
	}
	if r.Chance(1, 12) {
		// a value struct that is entirely zero (with any type, the zero type included):
		// the field is still there
		m.Value.Count, m.Value.Timer, m.Value.Gauge = 0, 0, 0
		if r.Bool() {
			m.Value.MetricType = 0
		}
		if r.Bool() {
			m.Timestamp = 0
		}
		if r.Chance(1, 3) {
			m.Name = ""
		}
	}
	return m
}

// normTags keeps the difference between an unset (nil) and a set-but-empty
// optional list: whether an optional field is present is part of the value
// ("with and without optional fields"); an empty list is normalised to one
// canonical empty non-nil slice.
func normTags(t []m3thrift.MetricTag) []m3thrift.MetricTag {
	if t != nil && len(t) == 0 {
		return []m3thrift.MetricTag{}
	}
	return t
}

func normMetric(m m3thrift.Metric) m3thrift.Metric {
	m.Tags = normTags(m.Tags)
	return m
}

func c16Case(c *mon.Ctx, r *mon.Rand, encs map[m3.Protocol]*encoder, calcs map[m3.Protocol]*calculator) {
	p := m3.Compact
	if r.Bool() {
		p = m3.Binary
	}
	enc, calc := encs[p], calcs[p]
	if c != nil {
		// encoding and decoding in-memory structures takes microseconds: a call that
		// has not returned after a minute is a hang (a decoder that loops on input it
		// cannot make progress on), not a slow machine
		stop := c.Watchdog(60*time.Second, "encode-or-decode-does-not-return/"+protoName(p), "thrift round trip of generated metrics and batches")
		defer stop()
	}
	viol := func(sig string, d map[string]interface{}) {
		if c != nil {
			d["protocol"] = protoName(p)
			c.Violation(sig+"/"+protoName(p), d)
		}
	}
	// every fifth case first abandons 1-12 batch writes half-way (the transport
	// refuses data after a budget of bytes): the protocol object is reused all
	// the same, and what it encodes afterwards must be right
	if r.Chance(1, 5) {
		for k, n := 0, r.Range(1, 12); k < n; k++ {
			b := m3thrift.MetricBatch{Metrics: []m3thrift.Metric{genMetric(r), genMetric(r)}, CommonTags: genTags(r, 3)}
			if err := enc.abort(b, r.Range(0, 60)); err == nil && c != nil {
				c.Event("aborted-writes-that-fitted-after-all", 1)
			} else if c != nil {
				c.Event("aborted-writes", 1)
			}
		}
	}
	// a sequence of single metrics, then a batch, through the same protocol objects
	nm := r.Range(1, 6)
	for k := 0; k < nm; k++ {
		m := genMetric(r)
		data, err := enc.metric(m)
		n := calc.metric(m)
		if c != nil {
			c.Eval(1)
			c.Event("metrics-encoded", 1)
			c.Distinct(mon.Hash64(string(data)))
		}
		if err != nil {
			viol("encode-error", map[string]interface{}{"metric": fmt.Sprintf("%+v", m), "err": err.Error()})
			continue
		}
		if int(n) != len(data) {
			viol("calc-differs-from-encoder", map[string]interface{}{"metric": fmt.Sprintf("%+v", m), "calc": n, "encoded": len(data)})
		}
		got, rest, derr := decodeMetric(p, data)
		if derr != nil || rest != 0 {
			viol("decode-error", map[string]interface{}{"metric": fmt.Sprintf("%+v", m), "err": fmt.Sprint(derr), "trailing": rest})
		} else if !metricEqual(normMetric(got), normMetric(m)) {
			viol("roundtrip-differs", map[string]interface{}{"in": fmt.Sprintf("%+v", m), "out": fmt.Sprintf("%+v", got)})
		} else if (got.Tags == nil) != (m.Tags == nil) {
			viol("roundtrip-optional-presence-differs", map[string]interface{}{"why": fmt.Sprintf("optional tag list: set=%v before encoding, set=%v after decoding", m.Tags != nil, got.Tags != nil), "in": fmt.Sprintf("%+v", m)})
		}
		// maximal placeholders bound the size for any other values
		mx := m
		mx.Timestamp = math.MaxInt64
		mx.Value.Count, mx.Value.Timer, mx.Value.Gauge = math.MaxInt64, math.MaxInt64, math.MaxFloat64
		if nmax := calc.metric(mx); int(nmax) < len(data) {
			viol("max-placeholder-not-an-upper-bound", map[string]interface{}{"metric": fmt.Sprintf("%+v", m), "calc_with_max_values": nmax, "encoded": len(data)})
		}
		// as the reporter sizes them: only the type's own field is maximal
		if m.Value.MetricType >= 0 && m.Value.MetricType <= 2 {
			rm := m
			rm.Timestamp = math.MaxInt64
			act := m
			switch m.Value.MetricType {
			case m3thrift.MetricType_COUNTER:
				rm.Value.Count, rm.Value.Timer, rm.Value.Gauge = math.MaxInt64, 0, 0
				act.Value.Timer, act.Value.Gauge = 0, 0
			case m3thrift.MetricType_GAUGE:
				rm.Value.Count, rm.Value.Timer, rm.Value.Gauge = 0, 0, math.MaxFloat64
				act.Value.Count, act.Value.Timer = 0, 0
			case m3thrift.MetricType_TIMER:
				rm.Value.Count, rm.Value.Timer, rm.Value.Gauge = 0, math.MaxInt64, 0
				act.Value.Count, act.Value.Gauge = 0, 0
			}
			ad, _ := enc.metric(act)
			if nmax := calc.metric(rm); int(nmax) < len(ad) {
				viol("max-placeholder-not-an-upper-bound", map[string]interface{}{"metric": fmt.Sprintf("%+v", act), "calc_with_reporter_placeholders": nmax, "encoded": len(ad)})
			}
		}
	}
	// a batch
	var b m3thrift.MetricBatch
	nb := r.Intn(12)
	switch r.Intn(10) {
	case 0:
		nb = 0
	case 1:
		nb = r.Range(13, 16)
	case 2:
		nb = r.Range(100, 500)
	}
	b.Metrics = make([]m3thrift.Metric, nb)
	for i := range b.Metrics {
		b.Metrics[i] = genMetric(r)
		if nb > 50 && len(b.Metrics[i].Name) > 40 {
			b.Metrics[i].Name = b.Metrics[i].Name[:40]
		}
	}
	b.CommonTags = genTags(r, 16)
	data, err := enc.batch(b)
	n := calc.batch(b)
	if c != nil {
		c.Eval(1)
		c.Event("batches-encoded", 1)
		c.Event("metrics-encoded", int64(nb))
		c.Distinct(mon.Hash64(string(data)))
		if c.WantSample() {
			c.Sample(map[string]interface{}{"protocol": protoName(p), "batch_metrics": nb, "common_tags": len(b.CommonTags), "encoded_bytes": len(data), "first_metric": fmt.Sprintf("%.200s", fmt.Sprintf("%+v", firstMetric(b)))})
		}
	}
	if err != nil {
		viol("encode-error", map[string]interface{}{"batch_metrics": nb, "err": err.Error()})
		return
	}
	if int(n) != len(data) {
		viol("calc-differs-from-encoder", map[string]interface{}{"batch_metrics": nb, "calc": n, "encoded": len(data)})
	}
	got, rest, derr := decodeBatch(p, data)
	if derr != nil || rest != 0 {
		viol("decode-error", map[string]interface{}{"batch_metrics": nb, "err": fmt.Sprint(derr), "trailing": rest})
		return
	}
	nb1, nb2 := got, b
	nb1.CommonTags, nb2.CommonTags = normTags(nb1.CommonTags), normTags(nb2.CommonTags)
	for i := range nb1.Metrics {
		nb1.Metrics[i] = normMetric(nb1.Metrics[i])
	}
	m2 := make([]m3thrift.Metric, len(nb2.Metrics))
	for i := range nb2.Metrics {
		m2[i] = normMetric(nb2.Metrics[i])
	}
	nb2.Metrics = m2
	if !batchEqual(nb1, nb2) {
		viol("roundtrip-differs", map[string]interface{}{"batch_metrics": nb, "in": fmt.Sprintf("%.600s", fmt.Sprintf("%+v", b)), "out": fmt.Sprintf("%.600s", fmt.Sprintf("%+v", got))})
		return
	}
	if (got.CommonTags == nil) != (b.CommonTags == nil) {
		viol("roundtrip-optional-presence-differs", map[string]interface{}{"why": fmt.Sprintf("optional common tag list: set=%v before encoding, set=%v after decoding", b.CommonTags != nil, got.CommonTags != nil), "batch_metrics": nb})
	}
	for i := range got.Metrics {
		if (got.Metrics[i].Tags == nil) != (b.Metrics[i].Tags == nil) {
			viol("roundtrip-optional-presence-differs", map[string]interface{}{"why": fmt.Sprintf("metric %d: optional tag list set=%v before encoding, set=%v after decoding", i, b.Metrics[i].Tags != nil, got.Metrics[i].Tags != nil), "batch_metrics": nb})
			break
		}
	}
}

func firstMetric(b m3thrift.MetricBatch) interface{} {
	if len(b.Metrics) == 0 {
		return nil
	}
	return b.Metrics[0]
}

var c16Ser = thrift.NewTSerializer()
var c16ReadTr, _ = customtransport.NewTBufferedReadTransport(bytes.NewBuffer(nil))

// c16Utilities: the two helpers around the codecs that keep state between
// messages. (1) One long-lived TSerializer encodes 2-4 metrics in a row; the
// caller keeps every result (as a queue of encoded messages would) and
// decodes them afterwards: each must still be the metric it was made from.
// (2) One long-lived TBufferedReadTransport is handed one packet after the
// other (as a UDP server loop does); a packet with trailing bytes, or one cut
// short, must not disturb the decoding of the next intact packet.
func c16Utilities(c *mon.Ctx, r *mon.Rand) {
	n := r.Range(2, 4)
	ms := make([]m3thrift.Metric, n)
	enc := make([][]byte, n)
	strs := make([]string, n)
	for i := range ms {
		ms[i] = genMetric(r)
		if i > 0 && r.Bool() && len(ms[i].Name) > 20 {
			ms[i].Name = ms[i].Name[:20] // later messages that fit into what the earlier ones needed
		}
		var err error
		if i%2 == 0 {
			enc[i], err = c16Ser.Write(&ms[i])
		} else {
			strs[i], err = c16Ser.WriteString(&ms[i])
			enc[i] = []byte(strs[i])
		}
		if err != nil {
			c.Violation("serializer-error", map[string]interface{}{"why": err.Error(), "metric": fmt.Sprintf("%+v", ms[i])})
			return
		}
	}
	for i := range ms {
		var out m3thrift.Metric
		if err := thrift.NewTDeserializer().Read(&out, enc[i]); err != nil {
			c.Violation("serializer-result-overwritten", map[string]interface{}{"why": fmt.Sprintf("message %d of %d encoded through one TSerializer no longer decodes after the later ones were encoded: %v", i, n, err), "metric": fmt.Sprintf("%.300s", fmt.Sprintf("%+v", ms[i]))})
			return
		}
		if !metricEqual(normMetric(out), normMetric(ms[i])) {
			c.Violation("serializer-result-overwritten", map[string]interface{}{"why": fmt.Sprintf("message %d of %d encoded through one TSerializer decodes to another metric after the later ones were encoded", i, n), "in": fmt.Sprintf("%.300s", fmt.Sprintf("%+v", ms[i])), "out": fmt.Sprintf("%.300s", fmt.Sprintf("%+v", out))})
			return
		}
	}
	c.Event("serializer-results-kept-and-decoded", int64(n))

	p := m3.Compact
	if r.Bool() {
		p = m3.Binary
	}
	// (3) a metric with long strings encoded through a transport that offers
	// only the plain TTransport methods (the protocols then write bytes and
	// strings through their RichTransport adapter, as they do over the
	// multi-destination UDP transport): decodes to the same metric
	{
		m := genMetric(r)
		m.Name = genBytes(r, 40) + strings.Repeat("n", r.Range(200, 1400))
		for k := range m.Tags {
			if r.Bool() {
				m.Tags[k].Value = strings.Repeat("v", r.Range(250, 800)) + genBytes(r, 10)
			}
		}
		pt := &c16PlainTransport{}
		proto := protoFactory(p).GetProtocol(pt)
		if err := m.Write(proto); err == nil && proto.Flush() == nil {
			got, rest, derr := decodeMetric(p, pt.buf.Bytes())
			if derr != nil || rest != 0 || !metricEqual(normMetric(got), normMetric(m)) {
				c.Violation("roundtrip-differs/plain-transport/"+protoName(p), map[string]interface{}{"why": fmt.Sprintf("a metric with a name of %d bytes written through a transport without byte/string methods decodes differently (err=%v, %d trailing bytes, decoded name %d bytes)", len(m.Name), derr, rest, len(got.Name))})
				return
			}
			c.Event("metrics-encoded-through-a-plain-transport", 1)
		}
	}
	for k, packets := 0, r.Range(2, 5); k < packets; k++ {
		b := m3thrift.MetricBatch{Metrics: []m3thrift.Metric{genMetric(r), genMetric(r)}, CommonTags: genTags(r, 3)}
		data, err := newEncoder(p).batch(b)
		if err != nil {
			return
		}
		fed, kind := data, "intact"
		switch r.Intn(4) {
		case 0:
			fed, kind = append(append([]byte(nil), data...), 0xde, 0xad, 0xbe), "with three trailing bytes"
		case 1:
			if k < packets-1 && len(data) > 8 {
				fed, kind = data[:len(data)/2], "cut short"
			}
		}
		c16ReadTr.Write(fed)
		var got m3thrift.MetricBatch
		derr := got.Read(protoFactory(p).GetProtocol(c16ReadTr))
		if kind == "cut short" {
			continue // expected to fail; what matters is the next packet
		}
		nb1, nb2 := got, b
		nb1.CommonTags, nb2.CommonTags = normTags(nb1.CommonTags), normTags(nb2.CommonTags)
		for i := range nb1.Metrics {
			nb1.Metrics[i] = normMetric(nb1.Metrics[i])
		}
		m2 := make([]m3thrift.Metric, len(nb2.Metrics))
		for i := range nb2.Metrics {
			m2[i] = normMetric(nb2.Metrics[i])
		}
		nb2.Metrics = m2
		if derr != nil || !batchEqual(nb1, nb2) {
			c.Violation("read-transport-carries-bytes-over/"+protoName(p), map[string]interface{}{"why": fmt.Sprintf("packet %d (%s) handed to a long-lived TBufferedReadTransport after earlier packets (some with trailing bytes or cut short) does not decode to what was encoded: err=%v", k, kind, derr)})
			return
		}
		c.Event("packets-decoded-through-one-read-transport", 1)
	}
}

// c16PlainTransport implements thrift.TTransport and nothing more.
type c16PlainTransport struct{ buf bytes.Buffer }

func (t *c16PlainTransport) Read(p []byte) (int, error)  { return t.buf.Read(p) }
func (t *c16PlainTransport) Write(p []byte) (int, error) { return t.buf.Write(p) }
func (t *c16PlainTransport) Close() error                { return nil }
func (t *c16PlainTransport) Flush() error                { return nil }
func (t *c16PlainTransport) RemainingBytes() uint64      { return uint64(t.buf.Len()) }
func (t *c16PlainTransport) Open() error                 { return nil }
func (t *c16PlainTransport) IsOpen() bool                { return true }
