package main

import (
	"fmt"
	"io"
	"runtime"
	"strings"
	"sync"
	"sync/atomic"
	"time"

	tally "github.com/uber-go/tally/v4"

	"verifharness/mon"
)

func init() { register("C07", runC07) }

func runC07(c *mon.Ctx) {
	if flagMode == "lifecycle" {
		c.Cases(func(i int, r *mon.Rand) { lifecycleCase(c, r, "C07") })
		return
	}
	c.Cases(func(i int, r *mon.Rand) {
		c07Run(c, r)
		c07Burst(c, r.Fork(707))
	})
}

// c07Burst: 130-600 subscopes (more than any per-pass quota a registry might
// have), each recorded on once, all closed before the next pass - in one shard
// or spread over several. The next pass, or the root's Close, delivers every
// one of them exactly once.
func c07Burst(c *mon.Ctx, r *mon.Rand) {
	cached := r.Bool()
	var rec *mon.Recorder
	opts := tally.ScopeOptions{OmitCardinalityMetrics: true}
	if cached {
		cr := mon.NewCachedRec(false)
		rec, opts.CachedReporter = cr.Recorder, cr
	} else {
		pr := mon.NewPlainRec(false)
		rec, opts.Reporter = pr.Recorder, pr
	}
	shards := uint(r.Range(1, 3))
	root, closer := vNewRoot(opts, 0, shards)
	n := r.Range(130, 600)
	tagged := r.Bool()
	byClose := r.Bool()
	for k := 0; k < n; k++ {
		var sc tally.Scope
		if tagged {
			sc = root.Tagged(map[string]string{"burst": fmt.Sprint(k)})
		} else {
			sc = root.SubScope(fmt.Sprintf("burst%d", k))
		}
		sc.Counter("c").Inc(int64(k + 1))
		if k%3 == 0 {
			sc.Histogram("h", tally.ValueBuckets{}).RecordValue(1)
		}
		sc.(io.Closer).Close()
	}
	if byClose {
		closer.Close()
	} else {
		tally.VerifReportPass(root)
	}
	_, agg, _ := rec.Snapshot()
	desc := map[string]interface{}{"cached": cached, "shards": shards, "subscopes_closed_before_the_pass": n, "tagged": tagged, "delivered_by_root_close": byClose}
	lost := 0
	for k := 0; k < n; k++ {
		key := mon.IdentKey(fmt.Sprintf("burst%d.c", k), nil)
		if tagged {
			key = mon.IdentKey("c", map[string]string{"burst": fmt.Sprint(k)})
		}
		if a := agg[key]; a.Sum != int64(k+1) || a.N != 1 {
			if lost++; lost == 1 {
				c.Violation("lost-or-duplicated-before-close", map[string]interface{}{"why": fmt.Sprintf("subscope %d of %d closed before one pass: its counter was delivered %d times adding up to %d, recorded %d before its Close", k, n, a.N, a.Sum, k+1), "case": desc})
			}
		}
	}
	c.Event("burst-subscopes-closed-before-one-pass", int64(n))
	if !byClose {
		closer.Close()
	}
}

type c07Ident struct {
	name     string // SubScope name or Tagged value
	tagged   bool
	key      string // recorder key of counter "c"
	hkey     string // recorder key prefix of histogram "h" bucket (-max,max]
	inert    string // name under which a child of the closed scope would deliver
	sum      int64  // increments made on handles before their Close
	hsum     int64
	closes   int64
	never    bool // bystander: never closed
	histKey  string
	histOnly bool // the harness only ever creates a histogram on this scope
}

func c07Pause(r *mon.Rand) {
	switch r.Intn(8) {
	case 0, 1, 2:
	case 3, 4:
		runtime.Gosched()
	case 5, 6:
		t0 := time.Now()
		d := time.Duration(r.Range(1, 20)) * time.Microsecond
		for time.Since(t0) < d {
		}
	default:
		time.Sleep(time.Duration(r.Range(20, 80)) * time.Microsecond)
	}
}

func c07Run(c *mon.Ctx, r *mon.Rand) {
	cached := r.Bool()
	var rec *mon.Recorder
	opts := tally.ScopeOptions{OmitCardinalityMetrics: r.Bool()}
	// half of the runs: the root carries tags (prefix-only subscopes then share
	// their tag set with the root and with each other)
	var rootTags map[string]string
	if r.Bool() {
		rootTags = map[string]string{"rt": "x", "zone": "z1"}
		opts.Tags = map[string]string{"rt": "x", "zone": "z1"}
	}
	withRT := func(m map[string]string) map[string]string {
		if len(rootTags) == 0 {
			return m
		}
		out := map[string]string{}
		for k, v := range rootTags {
			out[k] = v
		}
		for k, v := range m {
			out[k] = v
		}
		return out
	}
	if cached {
		cr := mon.NewCachedRec(false)
		rec = cr.Recorder
		opts.CachedReporter = cr
	} else {
		pr := mon.NewPlainRec(false)
		rec = pr.Recorder
		opts.Reporter = pr
	}
	// a cached reporter whose counter allocation takes a while: first uses of new
	// names hold the scope's metric lock for that long (see the creators below)
	slowAlloc := cached && r.Chance(1, 2)
	if slowAlloc {
		rec.Delay = func(k mon.EvKind) {
			if k == mon.EvAllocCounter {
				time.Sleep(60 * time.Microsecond)
			}
		}
	}
	shards := []uint{1, 1, 2, 3, 16, 0}[r.Intn(6)] // 0 = the public constructor (GOMAXPROCS shards)
	interval := time.Duration(0)
	if r.Chance(1, 3) && !c.Race {
		interval = 0 // deadlock probe configuration: no ticker, runtime detects all-asleep
	} else if r.Bool() {
		interval = time.Duration(r.Range(20, 200)) * time.Microsecond
	}
	nWorkers := r.Range(2, 8)
	nPassers := r.Range(1, 2)
	epochs := r.Range(2, 5)
	opsPerEpoch := r.Range(30, 200)
	// keep identity histories short enough for the linearizability checker
	histEpochs := 1
	prof := mon.RandomProfile(r, []int{tally.VerifRegScopeReported, tally.VerifRemoveHandover1, tally.VerifRemoveHandover2, tally.VerifReacquireBeforeReport,
		tally.VerifSubscopeUpgrade, tally.VerifCtrLoaded1, tally.VerifCtrLoaded2, tally.VerifPassLocked}, r.Intn(3))
	inj := mon.NewDelayInjector(r.U64(), prof, true)
	inj.Install()
	defer inj.Uninstall()
	// half of the runs use a sanitizer that rewrites the tag values the harness
	// passes, so that a Tagged scope is registered under several raw spellings
	// besides its sanitized key
	withSan := r.Bool()
	if withSan {
		so := tally.SanitizeOptions{
			NameCharacters:       tally.ValidCharacters{Ranges: tally.AlphanumericRange, Characters: tally.UnderscoreDashDotCharacters},
			KeyCharacters:        tally.ValidCharacters{Ranges: tally.AlphanumericRange, Characters: tally.UnderscoreCharacters},
			ValueCharacters:      tally.ValidCharacters{Ranges: tally.AlphanumericRange, Characters: tally.UnderscoreCharacters},
			ReplacementCharacter: '_',
		}
		opts.SanitizeOptions = &so
	}
	root, closer := vNewRoot(opts, interval, shards)
	desc := map[string]interface{}{"sanitizer": withSan, "root_tags": len(rootTags), "cached": cached, "shards": shards, "interval_us": interval.Microseconds(), "workers": nWorkers, "passers": nPassers,
		"epochs": epochs, "ops_per_epoch": opsPerEpoch, "delay_strength": prof.Strength, "slow_counter_allocation": slowAlloc}
	c.LogCase(fmt.Sprint(desc))
	stopWatch := c.Watchdog(300*time.Second, "no-progress(deadlock?)", desc)
	defer stopWatch()

	var spell uint64
	obtain := func(id *c07Ident) tally.Scope {
		if id.tagged {
			v := id.name
			if withSan {
				// raw spellings that all sanitize to id.name ("w0_k1")
				n := atomic.AddUint64(&spell, 1)
				v = strings.Replace(id.name, "_", []string{"_", ".", "-", ":"}[n%4], 1)
			}
			return root.Tagged(map[string]string{"id": v})
		}
		return root.SubScope(id.name)
	}
	var idents [][]*c07Ident // per worker
	for w := 0; w < nWorkers; w++ {
		n := r.Range(1, 3)
		var mine []*c07Ident
		for k := 0; k < n; k++ {
			id := &c07Ident{name: fmt.Sprintf("w%d_k%d", w, k), tagged: r.Bool(), never: k == 0 && r.Chance(1, 3), histOnly: k == 1}
			if id.tagged {
				id.key = mon.IdentKey("c", withRT(map[string]string{"id": id.name}))
				id.histKey = mon.BucketKeyV("h", withRT(map[string]string{"id": id.name}), -1.7976931348623157e308, 1.7976931348623157e308)
			} else {
				id.key = mon.IdentKey(id.name+".c", withRT(nil))
				id.histKey = mon.BucketKeyV(id.name+".h", withRT(nil), -1.7976931348623157e308, 1.7976931348623157e308)
			}
			mine = append(mine, id)
		}
		idents = append(idents, mine)
	}
	expectedKeys := map[string]bool{}
	for _, mine := range idents {
		for _, id := range mine {
			expectedKeys[id.key] = true
			expectedKeys[id.histKey] = true
		}
	}
	// two identities shared by all workers: only these make the identity history
	// concurrent; their counters are checked for "never more than recorded"
	shared := []*c07Ident{{name: "shared_0", key: mon.IdentKey("shared_0.c", withRT(nil))}, {name: "shared_1", tagged: true, key: mon.IdentKey("c", withRT(map[string]string{"id": "shared_1"}))}}
	var sharedSum [2]int64
	for _, id := range shared {
		expectedKeys[id.key] = true
	}
	// the scope the others are derived from records too: requesting a closed
	// child again must not disturb the parent it is requested from
	rootCtr := root.Counter("rootc")
	rootKey := mon.IdentKey("rootc", withRT(nil))
	expectedKeys[rootKey] = true
	var rootSum int64
	hist := mon.NewHistRecorder()
	var totalOps int64
	c.Eval(1)
	ok := true
	for e := 0; e < epochs && ok; e++ {
		var wg, wgP sync.WaitGroup
		var stop int32
		for w := 0; w < nWorkers; w++ {
			wg.Add(1)
			wr := r.Fork(uint64(e*1000 + w))
			go func(w int) {
				defer wg.Done()
				c.Guard("panic-subscope-close", func() interface{} { return desc }, func() {
					type held struct {
						id  *c07Ident
						sc  tally.Scope
						ctr tally.Counter
						h   tally.Histogram
						obj int
					}
					var handles []*held
					mine := idents[w]
					// With a sanitizer that rewrites the tags the registry picks the shard from
					// the raw spelling, so two spellings of one identity may live in two shards
					// as two scopes (C05 promises sharing only for inputs the sanitizer leaves
					// unchanged): the uniqueness model applies only with a single shard.
					recordHist := e < histEpochs && (!withSan || shards == 1)
					for i := 0; i < opsPerEpoch; i++ {
						atomic.AddInt64(&totalOps, 1)
						if i%7 == 0 {
							rootCtr.Inc(1)
							atomic.AddInt64(&rootSum, 1)
						}
						if recordHist && wr.Chance(1, 4) {
							// shared identity: Get, record, maybe Close
							si := wr.Intn(2)
							id := shared[si]
							call := hist.Tick()
							sc := obtain(id)
							obj := hist.ObjNum(id.name, sc)
							hist.Add(w, mon.RegIn{Ident: id.name}, call, obj, hist.Tick())
							atomic.AddInt64(&sharedSum[si], 1)
							sc.Counter("c").Inc(1)
							c07Pause(wr)
							if wr.Chance(1, 2) {
								call := hist.Tick()
								sc.(io.Closer).Close()
								hist.Add(w, mon.RegIn{Close: true, Ident: id.name, Obj: obj}, call, 0, hist.Tick())
							}
							continue
						}
						switch op := wr.Intn(10); {
						case op <= 1 || len(handles) == 0: // obtain (and retain)
							id := mine[wr.Intn(len(mine))]
							call := hist.Tick()
							sc := obtain(id)
							h := &held{id: id, sc: sc}
							if recordHist {
								h.obj = hist.ObjNum(id.name, sc)
								hist.Add(w, mon.RegIn{Ident: id.name}, call, h.obj, hist.Tick())
							}
							if id.histOnly {
								h.h = sc.Histogram("h", tally.ValueBuckets{})
							} else {
								h.ctr = sc.Counter("c")
								if wr.Chance(1, 4) {
									h.h = sc.Histogram("h", tally.ValueBuckets{})
								}
							}
							if wr.Chance(1, 3) && !id.histOnly {
								// a child that exists (registered, never recorded on) while its parent is live
								sc.SubScope("kid").Counter("c")
							}
							handles = append(handles, h)
						case op <= 6: // record on a retained handle
							h := handles[wr.Intn(len(handles))]
							k := wr.Range(1, 3)
							for j := 0; j < k; j++ {
								if h.ctr != nil {
									h.ctr.Inc(1)
									h.id.sum++
								}
								if h.h != nil {
									h.h.RecordValue(1)
									h.id.hsum++
								}
								c07Pause(wr)
							}
						case op <= 8: // close (drops every handle of that object: nothing is recorded after Close)
							h := handles[wr.Intn(len(handles))]
							if h.id.never {
								continue
							}
							// another goroutine of the application makes the first use of a new
							// name on this scope (never recorded on) while it is closed and gets
							// its final report
							var creator chan struct{}
							if wr.Chance(1, 2) && !h.id.histOnly {
								creator = make(chan struct{})
								sc, nm, slow := h.sc, fmt.Sprintf("extra_%d_%d_%d", e, w, i), slowAlloc
								go func() {
									defer close(creator)
									// first uses of every kind (timers are not buffered but live in
									// a map of the scope like the others), a few times, while the
									// scope is closed, reported for the last time and dropped
									for k := 0; k < 6; k++ {
										if slow || k%2 == 0 {
											sc.Counter(fmt.Sprintf("%s_%d", nm, k))
										}
										sc.Timer(fmt.Sprintf("%s_t%d", nm, k))
										sc.Gauge(fmt.Sprintf("%s_g%d", nm, k))
										runtime.Gosched()
									}
								}()
								runtime.Gosched()
							}
							call := hist.Tick()
							h.sc.(io.Closer).Close()
							if recordHist {
								hist.Add(w, mon.RegIn{Close: true, Ident: h.id.name, Obj: h.obj}, call, 0, hist.Tick())
							}
							if creator != nil {
								<-creator
							}
							h.id.closes++
							if wr.Chance(1, 3) {
								h.sc.(io.Closer).Close() // closing twice is harmless
							}
							if wr.Chance(1, 3) {
								// scopes derived from a closed scope are inert
								ch := h.sc.SubScope("child")
								ch.Counter("c").Inc(1)
								ch.Tagged(map[string]string{"x": "y"}).Gauge("g").Update(1)
								ch.Timer("t").Record(time.Millisecond)
								// also when that child already exists in the registry
								h.sc.SubScope("kid").Counter("c").Inc(1)
								// and when the derivation adds nothing (no tags at all)
								h.sc.Tagged(nil).Counter("inert_same").Inc(1)
								h.sc.Tagged(map[string]string{}).Gauge("inert_same_g").Update(1)
							}
							kept := handles[:0]
							for _, x := range handles {
								if ptrOf(x.sc) != ptrOf(h.sc) {
									kept = append(kept, x)
								}
							}
							handles = kept
							c07Pause(wr)
						default:
							c07Pause(wr)
						}
					}
					// end of epoch: keep handles? they are dropped; objects stay registered
				})
			}(w)
		}
		for p := 0; p < nPassers; p++ {
			wgP.Add(1)
			go func() {
				defer wgP.Done()
				for atomic.LoadInt32(&stop) == 0 {
					tally.VerifReportPass(root)
					runtime.Gosched()
				}
			}()
		}
		wg.Wait()
		atomic.StoreInt32(&stop, 1)
		wgP.Wait()
		tally.VerifReportPass(root) // the barrier pass
		_, agg, _ := rec.Snapshot()
		for _, mine := range idents {
			for _, id := range mine {
				c.Event("identity-epoch-checks", 1)
				if got := agg[id.key].Sum; got != id.sum {
					sig := "lost-or-duplicated-before-close"
					if id.never {
						sig = "bystander-harmed"
					}
					c.Violation(sig, map[string]interface{}{"why": fmt.Sprintf("epoch %d identity %s (tagged=%v, closes so far %d): counter delivered %d, recorded on live handles %d", e, id.name, id.tagged, id.closes, got, id.sum), "case": desc})
					ok = false
				}
				if got := agg[id.histKey].Sum; got != id.hsum {
					c.Violation("lost-or-duplicated-histogram-before-close", map[string]interface{}{"why": fmt.Sprintf("epoch %d identity %s: histogram samples delivered %d, recorded %d", e, id.name, got, id.hsum), "case": desc})
					ok = false
				}
			}
		}
		if got, want := agg[rootKey].Sum, atomic.LoadInt64(&rootSum); got != want {
			c.Violation("bystander-harmed", map[string]interface{}{"why": fmt.Sprintf("epoch %d: the counter of the root scope (from which the closed and re-requested scopes are derived): delivered %d, incremented %d", e, got, want), "case": desc})
			ok = false
		}
		for si, id := range shared {
			if got, rec := agg[id.key].Sum, atomic.LoadInt64(&sharedSum[si]); got > rec || agg[id.key].Neg > 0 {
				c.Violation("shared-identity-over-report", map[string]interface{}{"why": fmt.Sprintf("shared identity %s: delivered %d, recorded %d", id.name, got, rec), "case": desc})
				ok = false
			}
		}
		for key, a := range agg {
			if !expectedKeys[key] && a.N > 0 && !isInternalKey(key) {
				c.Violation("delivery-from-inert-or-unknown-scope", map[string]interface{}{"why": fmt.Sprintf("deliveries under %q which no live scope of the harness produces (children of closed scopes must be inert)", key), "case": desc})
				ok = false
			}
		}
	}
	if hist.MaxObj() >= mon.MaxObjsPerIdent-1 {
		c.Inconclusive("identity history has too many objects for the model")
	} else if hist.Len() > 0 {
		if verdict, why := hist.Check(30 * time.Second); verdict == "illegal" {
			c.Violation("identity-history-not-linearizable", map[string]interface{}{"why": why, "case": desc})
		} else if verdict == "unknown" {
			c.Inconclusive("porcupine timeout")
		} else {
			c.Event("identity-histories-linearizable", 1)
			c.Event("identity-history-operations", int64(hist.Len()))
		}
	}
	closer.Close()
	atomic.StoreInt32(&inj.Off, 1)
	c.Event("worker-operations", atomic.LoadInt64(&totalOps))
	hits, inter, sigs := inj.Stats.Report()
	for _, s := range sigs {
		c.Distinct(mon.Hash64(s))
	}
	mergeStats(c, hits, inter)
	if c.WantSample() {
		s := map[string]interface{}{"config": desc}
		if len(sigs) > 0 {
			s["an_interleaving_signature"] = mon.SigName(sigs[len(sigs)/2])
		}
		c.Sample(s)
	}
}

func isInternalKey(k string) bool { return contains(k, "tally.internal") }
