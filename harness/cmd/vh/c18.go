package main

import (
	"fmt"
	"math"
	"sort"
	"sync"
	"time"

	cstatsd "github.com/cactus/go-statsd-client/v5/statsd"
	tally "github.com/uber-go/tally/v4"
	tstatsd "github.com/uber-go/tally/v4/statsd"

	"verifharness/mon"
)

func init() { register("C18", runC18) }

func runC18(c *mon.Ctx) {
	c.Cases(func(i int, r *mon.Rand) {
		c18Case(c, r)
		c18Scope(c, r.Fork(7))
		if i%4 == 0 || c.Race {
			c18Concurrent(c, r.Fork(9))
		}
	})
}

type statCall struct {
	Method string
	Name   string
	I      int64
	D      time.Duration
	Rate   float32
	NTags  int
}

// recStatter records every client call.
type recStatter struct {
	mu    sync.Mutex
	calls []statCall
	// failEvery > 0: every failEvery-th call is recorded and then reports an
	// error (a client whose error does not mean that nothing was sent)
	failEvery int
	n         int
}

func (s *recStatter) add(m, n string, i int64, d time.Duration, rate float32, tags []cstatsd.Tag) error {
	s.mu.Lock()
	defer s.mu.Unlock()
	s.calls = append(s.calls, statCall{m, n, i, d, rate, len(tags)})
	s.n++
	if s.failEvery > 0 && s.n%s.failEvery == 0 {
		return errStatter
	}
	return nil
}

var errStatter = fmt.Errorf("statter: send failed")

func (s *recStatter) Inc(n string, v int64, r float32, t ...cstatsd.Tag) error {
	return s.add("Inc", n, v, 0, r, t)
}
func (s *recStatter) Dec(n string, v int64, r float32, t ...cstatsd.Tag) error {
	return s.add("Dec", n, v, 0, r, t)
}
func (s *recStatter) Gauge(n string, v int64, r float32, t ...cstatsd.Tag) error {
	return s.add("Gauge", n, v, 0, r, t)
}
func (s *recStatter) GaugeDelta(n string, v int64, r float32, t ...cstatsd.Tag) error {
	return s.add("GaugeDelta", n, v, 0, r, t)
}
func (s *recStatter) Timing(n string, v int64, r float32, t ...cstatsd.Tag) error {
	return s.add("Timing", n, v, 0, r, t)
}
func (s *recStatter) TimingDuration(n string, d time.Duration, r float32, t ...cstatsd.Tag) error {
	return s.add("TimingDuration", n, 0, d, r, t)
}
func (s *recStatter) Set(n string, v string, r float32, t ...cstatsd.Tag) error {
	return s.add("Set", n, 0, 0, r, t)
}
func (s *recStatter) SetInt(n string, v int64, r float32, t ...cstatsd.Tag) error {
	return s.add("SetInt", n, v, 0, r, t)
}
func (s *recStatter) Raw(n string, v string, r float32, t ...cstatsd.Tag) error {
	return s.add("Raw", n, 0, 0, r, t)
}
func (s *recStatter) NewSubStatter(string) cstatsd.SubStatter { return nil }
func (s *recStatter) SetPrefix(string)                        {}
func (s *recStatter) Close() error                            { return nil }

func refValueBound(prec uint, v float64) string {
	if v == math.MaxFloat64 {
		return "infinity"
	}
	if v == -math.MaxFloat64 {
		return "-infinity"
	}
	return fmt.Sprintf("%.*f", int(prec), v)
}

func refDurBound(d time.Duration) string {
	if d == time.Duration(math.MaxInt64) {
		return "infinity"
	}
	if d == time.Duration(math.MinInt64) {
		return "-infinity"
	}
	return d.String()
}

func c18Case(c *mon.Ctx, r *mon.Rand) {
	prec := uint(r.Range(0, 12)) // 0 = unset -> 6
	effPrec := prec
	if effPrec == 0 {
		effPrec = 6
	}
	var rate float32
	switch r.Intn(4) {
	case 0:
		rate = 0 // unset
	case 1:
		rate = 1
	default:
		rate = float32(r.Range(1, 1000)) / 1000
		if r.Chance(1, 3) {
			// rates that are not multiples of a thousandth: they reach the client as configured
			rate = []float32{1.0 / 3, 1.0 / 131072, 1e-7, 0.999999, 0.1234567, 2.0 / 3, float32(r.Float()*0.999) + 1e-9}[r.Intn(7)]
		}
	}
	effRate := rate
	if rate == 0 {
		effRate = 1
	}
	st := &recStatter{}
	if r.Chance(1, 3) {
		st.failEvery = r.Range(1, 4)
	}
	rep := tstatsd.NewReporter(st, tstatsd.Options{SampleRate: rate, HistogramBucketNamePrecision: prec})
	pool := newStrPool(r, true, true, true)
	var ops []string
	desc := func() interface{} {
		return map[string]interface{}{"precision": prec, "rate": rate, "client_reports_an_error_every": st.failEvery, "ops": ops}
	}
	c.Eval(1)
	c.Distinct(mon.Hash64(fmt.Sprint(prec, rate, r.U64())))
	expectOne := func(call string, want statCall, anyValue bool) {
		ops = append(ops, call)
		if len(st.calls) != 1 {
			c.Violation("statsd-not-exactly-one-call", map[string]interface{}{"why": fmt.Sprintf("%s produced %d client calls: %v", call, len(st.calls), st.calls), "case": desc()})
			st.calls = nil
			return
		}
		got := st.calls[0]
		st.calls = nil
		c.Event("client-calls-checked", 1)
		if anyValue {
			want.I = got.I
		}
		if got != want {
			c.Violation("statsd-call-differs", map[string]interface{}{"why": fmt.Sprintf("%s: client saw %+v, want %+v", call, got, want), "case": desc()})
		}
	}
	c.Guard("panic-statsd", desc, func() {
		if cp := rep.Capabilities(); !cp.Reporting() || cp.Tagging() {
			c.Violation("statsd-capabilities", map[string]interface{}{"why": fmt.Sprintf("capabilities reporting=%v tagging=%v", cp.Reporting(), cp.Tagging())})
		}
		for k := 0; k < 12; k++ {
			name := pool.names[r.Intn(len(pool.names))]
			tags := pool.tagMap(r, 3)
			switch r.Intn(3) {
			case 0:
				v := r.AnyInt64()
				rep.ReportCounter(name, tags, v)
				expectOne(fmt.Sprintf("ReportCounter(%q,%d)", name, v), statCall{"Inc", name, v, 0, effRate, 0}, false)
			case 1:
				v := r.AnyFloat()
				if r.Bool() {
					v = float64(r.Range(-100000, 100000)) / 16
				}
				rep.ReportGauge(name, tags, v)
				inRange := !math.IsNaN(v) && !math.IsInf(v, 0) && v > -9.2e18 && v < 9.2e18
				want := statCall{"Gauge", name, 0, 0, effRate, 0}
				if inRange {
					want.I = int64(math.Trunc(v))
				}
				expectOne(fmt.Sprintf("ReportGauge(%q,%v)", name, v), want, !inRange)
			default:
				d := r.AnyDuration()
				rep.ReportTimer(name, tags, d)
				expectOne(fmt.Sprintf("ReportTimer(%q,%d)", name, d), statCall{"TimingDuration", name, 0, d, effRate, 0}, false)
			}
		}
		// histogram buckets: every pair of a generated spec
		name := pool.names[r.Intn(len(pool.names))]
		if r.Bool() {
			spec := r.ValueSpec(24)
			if r.Chance(1, 3) {
				// bounds that differ only beyond the precision
				base := float64(r.Range(-5, 5))
				spec = append(spec, base, base+math.Pow(10, -float64(effPrec)-1), base+math.Pow(10, -float64(effPrec)))
			}
			pairs := mon.RefPairsV(spec)
			names := map[string][2]string{}
			for _, p := range pairs {
				s := r.AnyInt64()
				rep.ReportHistogramValueSamples(name, nil, tally.ValueBuckets(spec), p.Lo, p.Hi, s)
				lo, hi := refValueBound(effPrec, p.Lo), refValueBound(effPrec, p.Hi)
				want := fmt.Sprintf("%s.%s-%s", name, lo, hi)
				var got string
				if len(st.calls) == 1 {
					got = st.calls[0].Name
				}
				expectOne(fmt.Sprintf("ReportHistogramValueSamples(%q,%v,%v,%d)", name, p.Lo, p.Hi, s), statCall{"Inc", want, s, 0, effRate, 0}, false)
				if prev, ok := names[got]; ok && (prev[0] != lo || prev[1] != hi) {
					c.Violation("statsd-bucket-names-collide", map[string]interface{}{"why": fmt.Sprintf("buckets rendered (%s,%s] and (%s,%s] share the stat name %q", prev[0], prev[1], lo, hi, got), "case": desc()})
				}
				names[got] = [2]string{lo, hi}
				c.Event("bucket-names-checked", 1)
			}
		} else {
			spec := r.DurationSpec(24)
			pairs := mon.RefPairsD(spec)
			names := map[string][2]string{}
			for _, p := range pairs {
				s := r.AnyInt64()
				rep.ReportHistogramDurationSamples(name, nil, tally.DurationBuckets(spec), p.Lo, p.Hi, s)
				lo, hi := refDurBound(p.Lo), refDurBound(p.Hi)
				want := fmt.Sprintf("%s.%s-%s", name, lo, hi)
				var got string
				if len(st.calls) == 1 {
					got = st.calls[0].Name
				}
				expectOne(fmt.Sprintf("ReportHistogramDurationSamples(%q,%d,%d,%d)", name, p.Lo, p.Hi, s), statCall{"Inc", want, s, 0, effRate, 0}, false)
				if prev, ok := names[got]; ok && (prev[0] != lo || prev[1] != hi) {
					c.Violation("statsd-bucket-names-collide", map[string]interface{}{"why": fmt.Sprintf("buckets rendered (%s,%s] and (%s,%s] share the stat name %q", prev[0], prev[1], lo, hi, got), "case": desc()})
				}
				names[got] = [2]string{lo, hi}
				c.Event("bucket-names-checked", 1)
			}
		}
		rep.Flush()
		if len(st.calls) != 0 {
			c.Violation("statsd-flush-calls-client", map[string]interface{}{"why": fmt.Sprint(st.calls)})
		}
		// what the reporter advertises does not depend on how the calls went
		// (with a client that fails every call: a dozen errors in a row)
		if cp := rep.Capabilities(); !cp.Reporting() || cp.Tagging() {
			c.Violation("statsd-capabilities", map[string]interface{}{"why": fmt.Sprintf("after the history: capabilities reporting=%v tagging=%v", cp.Reporting(), cp.Tagging()), "case": desc()})
		}
	})
	if c.WantSample() {
		c.Sample(desc())
	}
}

// c18Concurrent: one reporter shared by several goroutines (a scope's report
// loop, synchronous timers and re-acquired scopes all call the reporter from
// their own goroutines). Every goroutine reports under names that carry its
// number; the multiset of client calls must equal the multiset of expected
// calls.
func c18Concurrent(c *mon.Ctx, r *mon.Rand) {
	prec := uint(r.Range(1, 9))
	st := &recStatter{}
	rep := tstatsd.NewReporter(st, tstatsd.Options{HistogramBucketNamePrecision: prec})
	G := r.Range(2, 8)
	per := r.Range(5, 60)
	c.Eval(1)
	desc := map[string]interface{}{"goroutines": G, "calls_per_goroutine": per, "precision": prec}
	want := make([][]statCall, G)
	var wg, start sync.WaitGroup
	start.Add(1)
	var panics sync.Map
	for g := 0; g < G; g++ {
		g := g
		gr := r.Fork(uint64(100 + g))
		// the calls are decided up front; names are long enough to be torn visibly
		type op struct {
			kind   int
			name   string
			v      int64
			lo, hi float64
			dlo    time.Duration
			dhi    time.Duration
		}
		ops := make([]op, per)
		for i := range ops {
			o := op{kind: gr.Intn(5), name: fmt.Sprintf("g%d_%s_%d", g, gr.Ident(1+gr.Intn(24)), i), v: int64(g)<<32 | int64(i) + 1}
			o.lo, o.hi = float64(gr.Range(-1000, 1000))/8, float64(gr.Range(1001, 3000))/8
			o.dlo, o.dhi = time.Duration(gr.Range(0, 1000))*time.Millisecond, time.Duration(gr.Range(1001, 100000))*time.Millisecond
			ops[i] = o
			switch o.kind {
			case 0:
				want[g] = append(want[g], statCall{"Inc", o.name, o.v, 0, 1, 0})
			case 1:
				want[g] = append(want[g], statCall{"Gauge", o.name, o.v, 0, 1, 0})
			case 2:
				want[g] = append(want[g], statCall{"TimingDuration", o.name, 0, time.Duration(o.v), 1, 0})
			case 3:
				want[g] = append(want[g], statCall{"Inc", fmt.Sprintf("%s.%s-%s", o.name, refValueBound(prec, o.lo), refValueBound(prec, o.hi)), o.v, 0, 1, 0})
			default:
				want[g] = append(want[g], statCall{"Inc", fmt.Sprintf("%s.%s-%s", o.name, refDurBound(o.dlo), refDurBound(o.dhi)), o.v, 0, 1, 0})
			}
		}
		wg.Add(1)
		go func() {
			defer wg.Done()
			defer func() {
				if p := recover(); p != nil {
					panics.Store(g, fmt.Sprint(p))
				}
			}()
			start.Wait()
			for _, o := range ops {
				switch o.kind {
				case 0:
					rep.ReportCounter(o.name, nil, o.v)
				case 1:
					rep.ReportGauge(o.name, nil, float64(o.v))
				case 2:
					rep.ReportTimer(o.name, nil, time.Duration(o.v))
				case 3:
					rep.ReportHistogramValueSamples(o.name, nil, nil, o.lo, o.hi, o.v)
				default:
					rep.ReportHistogramDurationSamples(o.name, nil, nil, o.dlo, o.dhi, o.v)
				}
			}
		}()
	}
	start.Done()
	wg.Wait()
	panics.Range(func(k, v interface{}) bool {
		c.Violation("panic-statsd-concurrent", map[string]interface{}{"why": v, "case": desc})
		return true
	})
	key := func(x statCall) string { return fmt.Sprintf("%s|%s|%d|%d|%v", x.Method, x.Name, x.I, x.D, x.Rate) }
	var wk, gk []string
	for g := range want {
		for _, x := range want[g] {
			wk = append(wk, key(x))
		}
	}
	for _, x := range st.calls {
		gk = append(gk, key(x))
	}
	sort.Strings(wk)
	sort.Strings(gk)
	c.Event("concurrent-client-calls-checked", int64(len(gk)))
	if len(wk) != len(gk) {
		c.Violation("statsd-not-exactly-one-call", map[string]interface{}{"why": fmt.Sprintf("%d report calls from %d goroutines produced %d client calls", len(wk), G, len(gk)), "case": desc})
	} else {
		for i := range wk {
			if wk[i] != gk[i] {
				c.Violation("statsd-call-differs", map[string]interface{}{"why": fmt.Sprintf("concurrent use: client saw %q, expected %q (sorted position %d)", gk[i], wk[i], i), "case": desc})
				break
			}
		}
	}
	c.Distinct(mon.Hash64("conc", fmt.Sprint(desc), fmt.Sprint(r.U64())))
}

// c18Scope: the reporter where applications put it - under a tally scope. A
// histogram that only fills a few of its buckets per interval (the usual
// case) must produce, per pass, one increment per non-empty bucket on the stat
// named after that bucket's own bounds, whatever the other buckets received.
func c18Scope(c *mon.Ctx, r *mon.Rand) {
	prec := uint(r.Range(0, 9))
	effPrec := prec
	if effPrec == 0 {
		effPrec = 6
	}
	st := &recStatter{}
	rep := tstatsd.NewReporter(st, tstatsd.Options{HistogramBucketNamePrecision: prec})
	prefix := r.Pick("", "svc", "a.b")
	// half of the histories: the reporter is shared with another root scope
	// which is closed before this one starts recording (closing a scope is not
	// closing the reporter's client for everybody else)
	sharedThenClosed := r.Bool()
	if sharedThenClosed {
		other, oc := vNewRoot(tally.ScopeOptions{Prefix: "other", Reporter: rep, OmitCardinalityMetrics: true}, 0, 1)
		other.Counter("c").Inc(1)
		oc.Close()
	}
	root, _ := vNewRoot(tally.ScopeOptions{Prefix: prefix, Reporter: rep, OmitCardinalityMetrics: true}, 0, uint(r.Range(0, 2)))
	sc := root
	full := prefix
	if r.Bool() {
		sc = root.SubScope("sub")
		full = mon.RefName(prefix, ".", "sub")
	}
	isDur := r.Bool()
	var vspec []float64
	var dspec []time.Duration
	if isDur {
		dspec = r.DurationSpec(16)
	} else {
		vspec = r.ValueSpec(16)
	}
	var ops []string
	desc := func() interface{} {
		return map[string]interface{}{"mode": "scope", "prefix": full, "reporter_shared_with_a_root_closed_earlier": sharedThenClosed, "precision": prec, "value_spec": vspec, "duration_spec": fmt.Sprint(dspec), "ops": ops}
	}
	c.Eval(1)
	name := mon.RefName(full, ".", "h")
	c.Guard("panic-statsd-scope", desc, func() {
		var h tally.Histogram
		if isDur {
			h = sc.Histogram("h", tally.DurationBuckets(dspec))
		} else {
			h = sc.Histogram("h", tally.ValueBuckets(vspec))
		}
		for pass := 0; pass < r.Range(1, 5); pass++ {
			want := map[string]int64{}
			for k := 0; k < r.Range(1, 4); k++ {
				if isDur {
					xs := r.SamplesForDurations(dspec, 1)
					x := xs[r.Intn(len(xs))]
					h.RecordDuration(x)
					p := mon.RefPairsD(dspec)[mon.RefPairIndexD(dspec, x)]
					want[fmt.Sprintf("%s.%s-%s", name, refDurBound(p.Lo), refDurBound(p.Hi))]++
					ops = append(ops, fmt.Sprintf("RecordDuration(%d)", x))
				} else {
					xs := r.SamplesForValues(vspec, 1)
					x := xs[r.Intn(len(xs))]
					if math.IsNaN(x) {
						continue
					}
					h.RecordValue(x)
					p := mon.RefPairsV(vspec)[mon.RefPairIndexV(vspec, x)]
					want[fmt.Sprintf("%s.%s-%s", name, refValueBound(effPrec, p.Lo), refValueBound(effPrec, p.Hi))]++
					ops = append(ops, fmt.Sprintf("RecordValue(%v)", x))
				}
			}
			st.mu.Lock()
			st.calls = nil
			st.mu.Unlock()
			tally.VerifReportPass(root)
			ops = append(ops, "report pass")
			got := map[string]int64{}
			st.mu.Lock()
			for _, cl := range st.calls {
				if cl.Method != "Inc" {
					c.Violation("statsd-call-differs", map[string]interface{}{"why": fmt.Sprintf("histogram samples arrived as %s(%q)", cl.Method, cl.Name), "case": desc()})
				}
				got[cl.Name] += cl.I
			}
			st.mu.Unlock()
			c.Event("scope-passes-checked", 1)
			if fmt.Sprint(got) != fmt.Sprint(want) {
				c.Violation("statsd-call-differs", map[string]interface{}{"why": fmt.Sprintf("pass delivered increments %v, the samples of this interval fall into %v", got, want), "case": desc()})
				return
			}
		}
	})
	c.Distinct(mon.Hash64("scope", fmt.Sprint(vspec, dspec, prec, ops)))
}
