package main

import (
	"fmt"
	"io"
	"math"
	"reflect"
	"runtime"
	"sync"
	"sync/atomic"
	"time"

	tally "github.com/uber-go/tally/v4"

	"verifharness/mon"
)

func init() { register("C09", runC09) }

func runC09(c *mon.Ctx) {
	switch flagMode {
	case "mix":
		c.Cases(func(i int, r *mon.Rand) { c09Mix(c, r) })
	default:
		c.Cases(func(i int, r *mon.Rand) {
			c09Round(c, r)
			c09BucketRace(c, r.Fork(77), 8)
			c09SecondLife(c, r.Fork(78))
			c09DeriveStorm(c, r.Fork(79))
			c09DeriveVsClose(c, r.Fork(80))
			c09DoubleClose(c, r.Fork(81))
		})
	}
}

func ptrOf(x interface{}) uintptr { return reflect.ValueOf(x).Pointer() }

// c09Round: N goroutines behind a barrier do first-use registration of
// overlapping names and children.
func c09Round(c *mon.Ctx, r *mon.Rand) {
	cached := r.Bool()
	var rec *mon.Recorder
	opts := tally.ScopeOptions{OmitCardinalityMetrics: r.Bool()}
	// half of the rounds: the root carries the tag the tagged children set, so
	// that those children override a value and add no key of their own
	var rootTags map[string]string
	if r.Bool() {
		rootTags = map[string]string{"kid": "parent", "rt": "x"}
		opts.Tags = map[string]string{"kid": "parent", "rt": "x"}
	}
	// a third of the rounds: a sanitizer that rewrites the tag value every
	// goroutine passes (all of them spell it the same way, "k.1" for "k_1"), so
	// that the scope is registered under a raw and a sanitized key
	withSan := r.Chance(1, 3)
	kidVal := func(k int) (raw, clean string) {
		if withSan {
			return fmt.Sprintf("k.%d", k), fmt.Sprintf("k_%d", k)
		}
		return fmt.Sprintf("k%d", k), fmt.Sprintf("k%d", k)
	}
	if withSan {
		opts.SanitizeOptions = &tally.SanitizeOptions{
			NameCharacters:       tally.ValidCharacters{Ranges: tally.AlphanumericRange, Characters: tally.UnderscoreDashDotCharacters},
			KeyCharacters:        tally.ValidCharacters{Ranges: tally.AlphanumericRange, Characters: tally.UnderscoreCharacters},
			ValueCharacters:      tally.ValidCharacters{Ranges: tally.AlphanumericRange, Characters: tally.UnderscoreCharacters},
			ReplacementCharacter: '_',
		}
	}
	if cached {
		cr := mon.NewCachedRec(true)
		rec = cr.Recorder
		opts.CachedReporter = cr
	} else {
		pr := mon.NewPlainRec(true)
		rec = pr.Recorder
		opts.Reporter = pr
	}
	shards := uint(r.Range(1, 64))
	if r.Bool() {
		shards = uint(r.Range(0, 2)) // 0 = the public constructor (GOMAXPROCS shards)
	}
	N := r.Range(2, 16)
	nNames := r.Range(1, 3)
	nKids := r.Range(1, 3)
	prof := mon.RandomProfile(r, []int{tally.VerifMetricProbeMissed, tally.VerifSubscopeUpgrade, tally.VerifRegScopeReported, tally.VerifCtrLoaded1}, r.Intn(3))
	if r.Bool() {
		prof.Prob[tally.VerifMetricProbeMissed] = r.Range(300, 900)
		prof.Prob[tally.VerifSubscopeUpgrade] = r.Range(300, 900)
	}
	inj := mon.NewDelayInjector(r.U64(), prof, true)
	inj.Install()
	defer inj.Uninstall()
	root, _ := vNewRoot(opts, 0, shards)
	existing := root.Counter("existing")
	desc := map[string]interface{}{"cached": cached, "shards": shards, "goroutines": N, "names": nNames, "children": nKids, "root_tags": rootTags, "rewriting_sanitizer": withSan}
	c.LogCase(fmt.Sprint(desc))
	stopWatch := c.Watchdog(300*time.Second, "no-progress(deadlock?)", desc)
	defer stopWatch()

	type got struct {
		kidScopes []tally.Scope
		counters  [][]tally.Counter // [kid][name]
		gauges    [][]tally.Gauge
		timers    [][]tally.Timer
		hists     [][]tally.Histogram
		mixed     []tally.Histogram // [kid]: one name requested with value buckets by even goroutines, duration buckets by odd ones
	}
	res := make([]got, N)
	hist := mon.NewHistRecorder()
	var wg sync.WaitGroup
	start := make(chan struct{})
	var stop int32
	var passes int64
	// background: passes and recording on an existing metric
	var bg sync.WaitGroup
	for p := 0; p < r.Range(1, 2); p++ {
		bg.Add(1)
		go func() {
			defer bg.Done()
			<-start
			for atomic.LoadInt32(&stop) == 0 {
				tally.VerifReportPass(root)
				atomic.AddInt64(&passes, 1)
			}
		}()
	}
	var existingSum int64
	bg.Add(1)
	go func() {
		defer bg.Done()
		<-start
		for atomic.LoadInt32(&stop) == 0 {
			existing.Inc(1)
			existingSum++
			time.Sleep(time.Microsecond)
		}
	}()
	kidIdent := func(k int) string {
		if k%2 == 0 {
			return fmt.Sprintf("sub:k%d", k)
		}
		return fmt.Sprintf("tag:k%d", k)
	}
	for g := 0; g < N; g++ {
		wg.Add(1)
		gr := r.Fork(uint64(g + 1))
		go func(g int) {
			defer wg.Done()
			out := &res[g]
			<-start
			order := gr.Perm(nKids)
			out.kidScopes = make([]tally.Scope, nKids)
			out.counters = make([][]tally.Counter, nKids)
			out.gauges = make([][]tally.Gauge, nKids)
			out.timers = make([][]tally.Timer, nKids)
			out.hists = make([][]tally.Histogram, nKids)
			out.mixed = make([]tally.Histogram, nKids)
			for _, k := range order {
				call := hist.Tick()
				var s tally.Scope
				if k%2 == 0 {
					s = root.SubScope(fmt.Sprintf("k%d", k))
				} else {
					raw, _ := kidVal(k)
					s = root.Tagged(map[string]string{"kid": raw})
				}
				obj := hist.ObjNum(kidIdent(k), s)
				hist.Add(g, mon.RegIn{Ident: kidIdent(k)}, call, obj, hist.Tick())
				out.kidScopes[k] = s
				out.counters[k] = make([]tally.Counter, nNames)
				out.gauges[k] = make([]tally.Gauge, nNames)
				out.timers[k] = make([]tally.Timer, nNames)
				out.hists[k] = make([]tally.Histogram, nNames)
				if g%2 == 0 {
					out.mixed[k] = s.Histogram("mixed", tally.ValueBuckets{1, 2})
				} else {
					out.mixed[k] = s.Histogram("mixed", tally.DurationBuckets{time.Millisecond, time.Second})
				}
				for _, n := range gr.Perm(nNames) {
					name := fmt.Sprintf("m%d", n)
					for _, kind := range gr.Perm(4) {
						switch kind {
						case 0:
							x := s.Counter(name)
							out.counters[k][n] = x
							x.Inc(1 << uint(g))
						case 1:
							x := s.Gauge(name)
							out.gauges[k][n] = x
							x.Update(float64(g + 1))
						case 2:
							x := s.Timer(name)
							out.timers[k][n] = x
							x.Record(time.Duration(g + 1))
						case 3:
							x := s.Histogram(name, c09KidSpec(k))
							out.hists[k][n] = x
							x.RecordValue(float64(g))
						}
					}
				}
			}
		}(g)
	}
	close(start)
	wg.Wait()
	atomic.StoreInt32(&stop, 1)
	bg.Wait()
	tally.VerifReportPass(root)
	atomic.StoreInt32(&inj.Off, 1)

	c.Eval(1)
	bad := func(sig, why string) { c.Violation(sig, map[string]interface{}{"why": why, "case": desc}) }
	// same pointers
	for k := 0; k < nKids; k++ {
		for g := 1; g < N; g++ {
			if ptrOf(res[g].kidScopes[k]) != ptrOf(res[0].kidScopes[k]) {
				bad("child-scope-split", fmt.Sprintf("goroutines 0 and %d received different scope objects for child %s", g, kidIdent(k)))
			}
			if res[g].mixed[k] != res[0].mixed[k] {
				bad("metric-split/histogram", fmt.Sprintf("goroutines 0 and %d received different histograms for the name \"mixed\" of %s (requested with value buckets by one, duration buckets by the other)", g, kidIdent(k)))
			}
			for n := 0; n < nNames; n++ {
				if res[g].counters[k][n] != res[0].counters[k][n] {
					bad("metric-split/counter", fmt.Sprintf("goroutines 0 and %d received different counters for %s m%d", g, kidIdent(k), n))
				}
				if res[g].gauges[k][n] != res[0].gauges[k][n] {
					bad("metric-split/gauge", fmt.Sprintf("goroutines 0 and %d received different gauges for %s m%d", g, kidIdent(k), n))
				}
				if res[g].timers[k][n] != res[0].timers[k][n] {
					bad("metric-split/timer", fmt.Sprintf("goroutines 0 and %d received different timers for %s m%d", g, kidIdent(k), n))
				}
				if res[g].hists[k][n] != res[0].hists[k][n] {
					bad("metric-split/histogram", fmt.Sprintf("goroutines 0 and %d received different histograms for %s m%d", g, kidIdent(k), n))
				}
			}
		}
	}
	// deliveries and allocations
	log, agg, _ := rec.Snapshot()
	allocs := map[string]int{}
	timerSeen := map[string]map[int64]int{}
	for _, ev := range log {
		switch ev.Kind {
		case mon.EvAllocCounter, mon.EvAllocGauge, mon.EvAllocTimer, mon.EvAllocHist:
			allocs[ev.Kind.String()+"|"+ev.Key]++
		case mon.EvTimer:
			if timerSeen[ev.Key] == nil {
				timerSeen[ev.Key] = map[int64]int{}
			}
			timerSeen[ev.Key][ev.I]++
		}
	}
	for k, n := range allocs {
		if n > 1 {
			bad("allocated-more-than-once", fmt.Sprintf("%d Allocate calls for %s", n, k))
		}
	}
	wantSum := int64(1)<<uint(N) - 1
	for k := 0; k < nKids; k++ {
		var name string
		var tags map[string]string
		for n := 0; n < nNames; n++ {
			if k%2 == 0 {
				name, tags = fmt.Sprintf("k%d.m%d", k, n), mon.RefOverlay(rootTags, nil)
			} else {
				_, clean := kidVal(k)
				name, tags = fmt.Sprintf("m%d", n), mon.RefOverlay(rootTags, map[string]string{"kid": clean})
			}
			if len(tags) == 0 {
				tags = nil
			}
			key := mon.IdentKey(name, tags)
			c.Event("first-use-metrics-checked", 4)
			if a := agg[key]; a.Sum != wantSum && false {
				_ = a
			}
			// counter: each goroutine contributed its own bit
			var csum int64
			for _, ev := range log {
				if ev.Kind == mon.EvCounter && ev.Key == key {
					csum += ev.I
				}
			}
			if csum != wantSum {
				bad("lost-first-use-increment", fmt.Sprintf("counter %s%v: delivered %#x, every goroutine g incremented 1<<g on the handle it received: want %#x", name, tags, csum, wantSum))
			}
			ts := timerSeen[key]
			for g := 0; g < N; g++ {
				if ts[int64(g+1)] != 1 {
					bad("lost-first-use-timer", fmt.Sprintf("timer %s%v: value %d of goroutine %d delivered %d times", name, tags, g+1, g, ts[int64(g+1)]))
				}
			}
			var hsum int64
			for _, ev := range log {
				if ev.Kind == mon.EvHistV && ev.Name == name && mon.TagsEqual(ev.Tags, tags) {
					hsum += ev.I
				}
			}
			if hsum != int64(N) {
				bad("lost-first-use-sample", fmt.Sprintf("histogram %s%v: %d samples delivered, %d recorded", name, tags, hsum, N))
			}
			// every child scope uses its own bucket set, all of which collide in the
			// root-wide bucket cache: the delivered bounds must be the child's own
			sp := c09KidSpec(k)
			for _, ev := range log {
				if ev.Kind == mon.EvHistV && ev.Name == name && mon.TagsEqual(ev.Tags, tags) {
					okHi := ev.Hi == sp[0] || ev.Hi == sp[1] || ev.Hi == math.MaxFloat64
					okLo := ev.Lo == -math.MaxFloat64 || ev.Lo == sp[0] || ev.Lo == sp[1]
					if !okHi || !okLo {
						bad("first-use-histogram-foreign-bounds", fmt.Sprintf("histogram %s%v created with %v delivered bucket (%v,%v]", name, tags, sp, ev.Lo, ev.Hi))
						break
					}
				}
			}
			gaugeOK := false
			for _, ev := range log {
				if ev.Kind == mon.EvGauge && ev.Key == key {
					gaugeOK = true
				}
			}
			if !gaugeOK {
				bad("lost-first-use-gauge", fmt.Sprintf("gauge %s%v: nothing delivered although %d goroutines updated it", name, tags, N))
			}
		}
	}
	if a := agg[mon.IdentKey("existing", rootTags)]; a.Sum != existingSum {
		bad("conservation-existing", fmt.Sprintf("existing counter delivered %d, incremented %d", a.Sum, existingSum))
	}
	if verdict, why := hist.Check(30 * time.Second); verdict == "illegal" {
		bad("identity-history-not-linearizable", why)
	} else if verdict == "unknown" {
		c.Inconclusive("porcupine timeout")
	} else {
		c.Event("identity-histories-linearizable", 1)
		c.Event("identity-history-operations", int64(hist.Len()))
	}
	c.Event("concurrent-passes", atomic.LoadInt64(&passes))
	hits, inter, sigs := inj.Stats.Report()
	for _, s := range sigs {
		c.Distinct(mon.Hash64(s))
	}
	mergeStats(c, hits, inter)
	if c.WantSample() {
		s := map[string]interface{}{"config": desc}
		if len(sigs) > 0 {
			s["an_interleaving_signature"] = mon.SigName(sigs[len(sigs)/2])
		}
		c.Sample(s)
	}
}

// c09Mix: the whole API used concurrently (for the race detector and for
// panics/deadlock): creation, recording, passes, subscope closes, snapshots,
// capabilities, root close.
func c09Mix(c *mon.Ctx, r *mon.Rand) {
	cached := r.Bool()
	opts := tally.ScopeOptions{}
	if cached {
		opts.CachedReporter = mon.NewCachedRec(false)
	} else {
		opts.Reporter = mon.NewPlainRec(false)
	}
	interval := time.Duration(0)
	if r.Bool() {
		interval = time.Duration(r.Range(50, 300)) * time.Microsecond
	}
	prof := mon.RandomProfile(r, []int{tally.VerifMetricProbeMissed, tally.VerifSubscopeUpgrade, tally.VerifRegScopeReported, tally.VerifRemoveHandover1, tally.VerifRemoveHandover2, tally.VerifReacquireBeforeReport, tally.VerifCloseBeforeFinal}, r.Intn(2))
	inj := mon.NewDelayInjector(r.U64(), prof, false)
	inj.Install()
	defer inj.Uninstall()
	root, closer := vNewRoot(opts, interval, uint(r.Range(0, 8)))
	test := vNewTest("t", map[string]string{"a": "b"}, uint(r.Range(0, 4)))
	desc := map[string]interface{}{"cached": cached, "interval_us": interval.Microseconds()}
	c.LogCase(fmt.Sprint(desc))
	stopWatch := c.Watchdog(300*time.Second, "no-progress(deadlock?)", desc)
	defer stopWatch()
	W := r.Range(4, 8)
	var wg sync.WaitGroup
	var ops int64
	for w := 0; w < W; w++ {
		wg.Add(1)
		wr := r.Fork(uint64(w + 10))
		go func(w int) {
			defer wg.Done()
			c.Guard("panic-api-mix", func() interface{} { return desc }, func() {
				for i := 0; i < 300; i++ {
					var base tally.Scope = root
					if wr.Chance(1, 3) {
						base = test
					}
					s := base
					switch wr.Intn(4) {
					case 0:
						s = base.SubScope(fmt.Sprintf("s%d", wr.Intn(4)))
					case 1:
						s = base.Tagged(map[string]string{"k": fmt.Sprintf("v%d", wr.Intn(4))})
					case 2:
						s = base.SubScope(fmt.Sprintf("s%d", wr.Intn(4))).Tagged(map[string]string{"k": "v"})
					}
					name := fmt.Sprintf("m%d", wr.Intn(5))
					switch wr.Intn(10) {
					case 0, 1:
						s.Counter(name).Inc(1)
					case 2:
						s.Gauge(name).Update(float64(i))
					case 3:
						s.Timer(name).Record(time.Duration(i))
					case 4:
						s.Histogram(name, tally.ValueBuckets{1, 2, 3}).RecordValue(float64(i % 5))
					case 5:
						// bucket layouts that collide in the shared bucket cache
						layouts := []tally.Buckets{nil, tally.DurationBuckets{10 * time.Millisecond, 40 * time.Millisecond}, tally.DurationBuckets{20 * time.Millisecond, 30 * time.Millisecond}, tally.DurationBuckets{40 * time.Millisecond, 10 * time.Millisecond}}
						k := wr.Intn(len(layouts))
						s.Histogram(fmt.Sprintf("%sd%d", name, k), layouts[k]).RecordDuration(time.Duration(i))
					case 6:
						tally.VerifReportPass(root)
					case 7:
						if s != root && s != tally.Scope(test) {
							s.(io.Closer).Close()
						}
					case 8:
						_ = test.Snapshot()
						_ = s.Capabilities().Reporting()
					default:
						sw := s.Timer(name).Start()
						sw.Stop()
					}
					atomic.AddInt64(&ops, 1)
				}
			})
		}(w)
	}
	if r.Bool() {
		time.Sleep(time.Duration(r.Range(0, 2000)) * time.Microsecond)
		closer.Close()
	}
	wg.Wait()
	closer.Close()
	c.Eval(1)
	c.Event("api-operations", atomic.LoadInt64(&ops))
	hits, inter, _ := inj.Stats.Report()
	mergeStats(c, hits, inter)
	c.Distinct(mon.Hash64(fmt.Sprint(desc, r.U64())))
}

// c09KidSpec gives child scope k its own two-bound value bucket set; all of
// them have the same additive identity as {10, 20} (bits moved from the second
// bound to the first).
func c09KidSpec(k int) tally.ValueBuckets {
	d := uint64(k) << 40
	return tally.ValueBuckets{math.Float64frombits(math.Float64bits(10) + d), math.Float64frombits(math.Float64bits(20) - d)}
}

// c09BucketRace: on a fresh root, several goroutines released together each
// make the first use of a histogram on a scope of their own, each with its
// own bucket set, all colliding in the root-wide bucket cache (the cache is
// empty, so all of them miss at the same moment). Every histogram must
// deliver under its own bounds. Eight fresh roots per case.
func c09BucketRace(c *mon.Ctx, r *mon.Rand, iters int) {
	for it := 0; it < iters; it++ {
		cached := r.Bool()
		var rec *mon.Recorder
		opts := tally.ScopeOptions{OmitCardinalityMetrics: true}
		if cached {
			cr := mon.NewCachedRec(true)
			rec = cr.Recorder
			opts.CachedReporter = cr
		} else {
			pr := mon.NewPlainRec(true)
			rec = pr.Recorder
			opts.Reporter = pr
		}
		root, _ := vNewRoot(opts, 0, uint(r.Range(0, 4)))
		G := r.Range(2, 6)
		desc := map[string]interface{}{"cached": cached, "goroutines": G, "what": "first use of histograms with colliding bucket sets on sibling scopes of a fresh root"}
		// every other root: somebody asked for a histogram with a caller-defined
		// Buckets type first and recovered from the library's refusal (a panic);
		// the first uses that follow must go through all the same
		if it%2 == 1 {
			func() {
				defer func() { recover() }()
				root.SubScope("custom").Histogram("h", c20Units{1, 2, 3})
			}()
			desc["after_a_recovered_request_with_a_caller_defined_buckets_type"] = true
		}
		stopW := c.Watchdog(90*time.Second, "first-use-of-a-histogram-does-not-return", desc)
		var wg sync.WaitGroup
		var ready int32
		for g := 0; g < G; g++ {
			wg.Add(1)
			go func(g int) {
				defer wg.Done()
				defer func() { recover() }()
				sc := root.SubScope(fmt.Sprintf("b%d", g))
				sp := c09KidSpec(g + 1)
				atomic.AddInt32(&ready, 1)
				for atomic.LoadInt32(&ready) < int32(G) {
					runtime.Gosched()
				}
				sc.Histogram("h", sp).RecordValue(11)
			}(g)
		}
		wg.Wait()
		stopW()
		tally.VerifReportPass(root)
		log, _, _ := rec.Snapshot()
		seen := make([]bool, G)
		for _, ev := range log {
			if ev.Kind != mon.EvHistV {
				continue
			}
			var g int
			if _, err := fmt.Sscanf(ev.Name, "b%d.h", &g); err != nil || g < 0 || g >= G {
				continue
			}
			sp := c09KidSpec(g + 1)
			seen[g] = true
			// 11 lies between the two bounds of every set
			if ev.Lo != sp[0] || ev.Hi != sp[1] || ev.I != 1 {
				c.Violation("first-use-histogram-foreign-bounds", map[string]interface{}{"why": fmt.Sprintf("histogram %s created with %v delivered %d samples in bucket (%v,%v]", ev.Name, sp, ev.I, ev.Lo, ev.Hi), "case": desc})
			}
		}
		for g := range seen {
			if !seen[g] {
				c.Violation("lost-first-use-sample", map[string]interface{}{"why": fmt.Sprintf("histogram b%d.h: nothing delivered", g), "case": desc})
			}
		}
		c.Event("colliding-first-use-races", 1)
	}
}

// c09SecondLife: first use, again. (1) A child scope is closed (no pass in
// between, so the closed object is still registered) and then requested by
// several goroutines at the same moment: they must all get the same live
// object and everything they record must arrive. (2) Several goroutines ask
// for the root's own identity through the degenerate derivations
// (Tagged(nil), Tagged(empty), Tagged(tags the root already has),
// SubScope("") on a prefix-less root) and for one counter on it: one scope,
// one counter, one Allocate call.
func c09SecondLife(c *mon.Ctx, r *mon.Rand) {
	cached := r.Bool()
	var rec *mon.Recorder
	rootTags := map[string]string{"rt": "x"}
	opts := tally.ScopeOptions{OmitCardinalityMetrics: true, Tags: map[string]string{"rt": "x"}}
	if cached {
		cr := mon.NewCachedRec(true)
		rec = cr.Recorder
		opts.CachedReporter = cr
	} else {
		pr := mon.NewPlainRec(true)
		rec = pr.Recorder
		opts.Reporter = pr
	}
	shards := uint(r.Range(0, 8))
	// a third of the runs: a sanitizer rewrites the child's tag value, and every
	// goroutine asks for it through another raw spelling (one shard, where all
	// spellings of one identity share a scope)
	withSan := r.Chance(1, 3)
	if withSan {
		so := tally.SanitizeOptions{
			NameCharacters:       tally.ValidCharacters{Ranges: tally.AlphanumericRange, Characters: tally.UnderscoreDashDotCharacters},
			KeyCharacters:        tally.ValidCharacters{Ranges: tally.AlphanumericRange, Characters: tally.UnderscoreCharacters},
			ValueCharacters:      tally.ValidCharacters{Ranges: tally.AlphanumericRange, Characters: tally.UnderscoreCharacters},
			ReplacementCharacter: '_',
		}
		opts.SanitizeOptions = &so
		shards = 1
	}
	prof := mon.RandomProfile(r, []int{tally.VerifSubscopeUpgrade, tally.VerifReacquireBeforeReport, tally.VerifMetricProbeMissed}, r.Intn(3))
	prof.Prob[tally.VerifSubscopeUpgrade] = r.Range(200, 900)
	inj := mon.NewDelayInjector(r.U64(), prof, false)
	inj.Install()
	defer inj.Uninstall()
	root, _ := vNewRoot(opts, 0, shards)
	G := r.Range(2, 8)
	tagged := r.Bool() || withSan
	desc := map[string]interface{}{"cached": cached, "shards": shards, "goroutines": G, "child_is_tagged": tagged, "sanitizer_with_one_spelling_per_goroutine": withSan}
	var spell uint64
	bad := func(sig, why string) { c.Violation(sig, map[string]interface{}{"why": why, "case": desc}) }
	get := func() tally.Scope {
		if withSan {
			n := atomic.AddUint64(&spell, 1)
			return root.Tagged(map[string]string{"id": "ki" + []string{"_", ".", "-", ":", "/", "+", " "}[n%7] + "d"})
		}
		if tagged {
			return root.Tagged(map[string]string{"id": "kid"})
		}
		return root.SubScope("kid")
	}
	var want int64
	rounds := r.Range(1, 4)
	for round := 0; round < rounds; round++ {
		first := get()
		first.Counter("c").Inc(1 << 40)
		want += 1 << 40
		first.(io.Closer).Close()
		got := make([]tally.Scope, G)
		var wg sync.WaitGroup
		var ready int32
		for g := 0; g < G; g++ {
			wg.Add(1)
			go func(g int) {
				defer wg.Done()
				defer func() { recover() }()
				atomic.AddInt32(&ready, 1)
				for atomic.LoadInt32(&ready) < int32(G) {
					runtime.Gosched()
				}
				got[g] = get()
				got[g].Counter("c").Inc(1 << uint(g))
			}(g)
		}
		wg.Wait()
		want += 1<<uint(G) - 1
		for g := 1; g < G; g++ {
			if got[g] == nil || got[0] == nil || ptrOf(got[g]) != ptrOf(got[0]) {
				bad("child-scope-split", fmt.Sprintf("round %d: goroutines 0 and %d that requested the just-closed child at the same moment received different scope objects", round, g))
				break
			}
		}
		if got[0] != nil && ptrOf(got[0]) == ptrOf(first) {
			bad("closed-scope-returned", "the closed scope object itself was handed out again")
		}
		tally.VerifReportPass(root)
	}
	// the root's own identity
	reqs := []func() tally.Scope{
		func() tally.Scope { return root.Tagged(nil) },
		func() tally.Scope { return root.Tagged(map[string]string{}) },
		func() tally.Scope { return root.Tagged(map[string]string{"rt": "x"}) },
		func() tally.Scope { return root.SubScope("") },
	}
	rootCtr := make([]tally.Counter, G)
	var wg sync.WaitGroup
	for g := 0; g < G; g++ {
		wg.Add(1)
		go func(g int) {
			defer wg.Done()
			defer func() { recover() }()
			sc := reqs[g%len(reqs)]()
			rootCtr[g] = sc.Counter("rootc")
			rootCtr[g].Inc(1 << uint(g))
		}(g)
	}
	wg.Wait()
	direct := root.Counter("rootc")
	for g := 0; g < G; g++ {
		if rootCtr[g] != direct {
			bad("metric-split/counter", fmt.Sprintf("a counter obtained through a derivation that ends at the root's own identity (variant %d) is not the root's counter of that name", g%len(reqs)))
			break
		}
	}
	tally.VerifReportPass(root)
	log, agg, _ := rec.Snapshot()
	kidKey := mon.IdentKey("kid.c", rootTags)
	if tagged {
		kidKey = mon.IdentKey("c", map[string]string{"rt": "x", "id": "kid"})
	}
	if withSan {
		kidKey = mon.IdentKey("c", map[string]string{"rt": "x", "id": "ki_d"})
	}
	if got := agg[kidKey].Sum; got != want {
		bad("lost-first-use-increment", fmt.Sprintf("child counter: delivered %#x, recorded %#x over %d close/re-request rounds", got, want, rounds))
	}
	if got, w := agg[mon.IdentKey("rootc", rootTags)].Sum, int64(1)<<uint(G)-1; got != w {
		bad("lost-first-use-increment", fmt.Sprintf("root counter reached through degenerate derivations: delivered %#x, recorded %#x", got, w))
	}
	if cached {
		n := 0
		for _, ev := range log {
			if ev.Kind == mon.EvAllocCounter && ev.Name == "rootc" {
				n++
			}
		}
		if n > 1 {
			bad("allocated-more-than-once", fmt.Sprintf("AllocateCounter(rootc) called %d times", n))
		}
	}
	c.Event("second-life-rounds", int64(rounds))
}

// c09DeriveStorm: four times as many goroutines as processors derive fresh
// scopes with long keys (beyond any small scratch buffer), yielding between
// calls so that goroutines overtake each other between the steps of a
// derivation. Every goroutine's identities are its own and a few are shared by
// all; asking again must hand out the same object, and each identity's
// counter must end up with exactly what was added under that identity.
func c09DeriveStorm(c *mon.Ctx, r *mon.Rand) {
	pr := mon.NewPlainRec(false)
	shards := uint(r.Range(0, 4))
	sopts := tally.ScopeOptions{Reporter: pr, OmitCardinalityMetrics: true, Tags: map[string]string{"rt": "x"}}
	// half of the storms run with a sanitizer, each goroutine asking for its
	// counter under one of four spellings that are rewritten ("c:2" is "c_2")
	withSan := r.Bool()
	if withSan {
		sopts.SanitizeOptions = &tally.SanitizeOptions{
			NameCharacters:       tally.ValidCharacters{Ranges: tally.AlphanumericRange, Characters: tally.UnderscoreDashDotCharacters},
			KeyCharacters:        tally.ValidCharacters{Ranges: tally.AlphanumericRange, Characters: tally.UnderscoreCharacters},
			ValueCharacters:      tally.ValidCharacters{Ranges: tally.AlphanumericRange, Characters: tally.UnderscoreCharacters},
			ReplacementCharacter: '_',
		}
	}
	askName := func(g int) (ask, clean string) {
		if withSan {
			return fmt.Sprintf("c:%d", g%4), fmt.Sprintf("c_%d", g%4)
		}
		return "c", "c"
	}
	// a third of the storms: the root carries fourteen more tags of which every
	// derivation overrides one (more key/value pairs than any small-input path of
	// the key generation handles)
	wide := map[string]string{}
	var override map[string]string
	if r.Chance(1, 3) {
		for k := 0; k < 14; k++ {
			sopts.Tags[fmt.Sprintf("w%02d", k)] = "parent"
			wide[fmt.Sprintf("w%02d", k)] = "parent"
		}
		override = map[string]string{fmt.Sprintf("w%02d", r.Intn(14)): "child"}
		for k, v := range override {
			wide[k] = v
		}
	}
	root, _ := vNewRoot(sopts, 0, shards)
	G := 4 * runtime.GOMAXPROCS(0)
	if G > 64 {
		G = 64
	}
	const M = 24
	pad := make([]byte, r.Range(200, 400))
	for i := range pad {
		pad[i] = byte('a' + i%26)
	}
	var wg sync.WaitGroup
	var mismatches int64
	var first atomic.Value
	start := make(chan struct{})
	for g := 0; g < G; g++ {
		wg.Add(1)
		go func(g int) {
			defer wg.Done()
			<-start
			for i := 0; i < M; i++ {
				var tags map[string]string
				if i%4 == 3 {
					tags = map[string]string{"shared": fmt.Sprint(i), "pad": string(pad)}
				} else {
					tags = map[string]string{"g": fmt.Sprint(g), "i": fmt.Sprint(i), "pad": string(pad[:len(pad)-g])}
				}
				for k, v := range override {
					tags[k] = v
				}
				var sc tally.Scope
				if i%2 == 0 {
					sc = root.Tagged(tags)
				} else {
					sc = root.SubScope("p").Tagged(tags)
				}
				runtime.Gosched()
				ask, _ := askName(g)
				sc.Counter(ask).Inc(1)
				var again tally.Scope
				if i%2 == 0 {
					again = root.Tagged(tags)
				} else {
					again = root.SubScope("p").Tagged(tags)
				}
				if ptrOf(again) != ptrOf(sc) {
					if atomic.AddInt64(&mismatches, 1) == 1 {
						first.Store(fmt.Sprintf("goroutine %d derivation %d: asking twice for the scope with tags g=%v i=%v shared=%v (and a pad of %d bytes) returned two different objects", g, i, tags["g"], tags["i"], tags["shared"], len(tags["pad"])))
					}
				}
			}
		}(g)
	}
	close(start)
	wg.Wait()
	if n := atomic.LoadInt64(&mismatches); n > 0 {
		c.Violation("scope-not-unique", map[string]interface{}{"why": first.Load(), "mismatches": n, "goroutines": G, "shards": shards})
	}
	tally.VerifReportPass(root)
	_, agg, _ := pr.Snapshot()
	bad := 0
	for g := 0; g < G; g++ {
		for i := 0; i < M; i++ {
			_, name := askName(g)
			want := int64(1)
			if i%2 == 1 {
				name = "p." + name
			}
			tags := map[string]string{"rt": "x", "g": fmt.Sprint(g), "i": fmt.Sprint(i), "pad": string(pad[:len(pad)-g])}
			if i%4 == 3 {
				// shared identities: one counter per spelling in use, fed by every
				// goroutine that uses that spelling
				if g >= 4 || (!withSan && g > 0) {
					continue
				}
				want = int64(G)
				if withSan {
					want = int64((G - g + 3) / 4)
				}
				tags = map[string]string{"rt": "x", "shared": fmt.Sprint(i), "pad": string(pad)}
			}
			for k, v := range wide {
				tags[k] = v
			}
			if a := agg[mon.IdentKey(name, tags)]; a.Sum != want {
				if bad++; bad <= 3 {
					c.Violation("contribution-lost", map[string]interface{}{"why": fmt.Sprintf("counter %s of the scope with tags g=%v i=%v shared=%v: delivered %d, added %d under that identity", name, tags["g"], tags["i"], tags["shared"], a.Sum, want), "goroutines": G, "shards": shards})
				}
			}
		}
	}
	c.Event("storm-derivations", int64(G*M*2))
}

// c09DeriveVsClose: 2-6 goroutines keep making the first request for fresh
// children with wide tag maps (building the key of each takes a while) while
// the root is closed at a PRNG-chosen moment. Whatever each request returns,
// all of them return, and so does Close.
func c09DeriveVsClose(c *mon.Ctx, r *mon.Rand) {
	pr := mon.NewPlainRec(false)
	interval := time.Duration(0)
	if r.Bool() {
		interval = time.Duration(r.Range(200, 2000)) * time.Microsecond
	}
	root, closer := vNewRoot(tally.ScopeOptions{Reporter: pr, OmitCardinalityMetrics: true}, interval, uint(r.Range(0, 4)))
	G := r.Range(2, 6)
	width := r.Range(100, 600)
	base := make(map[string]string, width)
	for k := 0; k < width; k++ {
		base[fmt.Sprintf("key%04d", k)] = "v"
	}
	desc := map[string]interface{}{"goroutines": G, "tag_map_width": width, "interval_us": interval.Microseconds()}
	stopW := c.Watchdog(120*time.Second, "close-or-first-request-does-not-return", desc)
	defer stopW()
	var stop int32
	var wg sync.WaitGroup
	var derived int64
	for g := 0; g < G; g++ {
		wg.Add(1)
		go func(g int) {
			defer wg.Done()
			tags := make(map[string]string, width+1)
			for k, v := range base {
				tags[k] = v
			}
			c.Guard("panic-derive-during-close", func() interface{} { return desc }, func() {
				for i := 0; i < 400 && (atomic.LoadInt32(&stop) == 0 || i%8 != 0); i++ {
					tags["fresh"] = fmt.Sprintf("%d-%d", g, i)
					root.Tagged(tags)
					atomic.AddInt64(&derived, 1)
				}
			})
		}(g)
	}
	time.Sleep(time.Duration(r.Range(100, 3000)) * time.Microsecond)
	closer.Close()
	atomic.StoreInt32(&stop, 1)
	wg.Wait()
	// and once more afterwards: a closed root still answers
	root.Tagged(map[string]string{"after": "close"})
	root.SubScope("after")
	c.Event("first-requests-racing-a-root-close", atomic.LoadInt64(&derived))
}

// c09DoubleClose: 2-6 goroutines call Close on one and the same fresh child
// at the same moment (spin barrier), 150 children in a row: no panic, and what
// was recorded on each child before is delivered exactly once.
func c09DoubleClose(c *mon.Ctx, r *mon.Rand) {
	pr := mon.NewPlainRec(false)
	root, _ := vNewRoot(tally.ScopeOptions{Reporter: pr, OmitCardinalityMetrics: true}, 0, uint(r.Range(0, 3)))
	G := r.Range(2, 6)
	const rounds = 150
	var panics int64
	var first atomic.Value
	for k := 0; k < rounds; k++ {
		child := root.SubScope(fmt.Sprintf("dc%d", k))
		child.Counter("c").Inc(1)
		var wg sync.WaitGroup
		var ready int32
		for g := 0; g < G; g++ {
			wg.Add(1)
			go func() {
				defer wg.Done()
				defer func() {
					if p := recover(); p != nil {
						if atomic.AddInt64(&panics, 1) == 1 {
							first.Store(fmt.Sprint(p))
						}
					}
				}()
				atomic.AddInt32(&ready, 1)
				for n := 0; atomic.LoadInt32(&ready) < int32(G); n++ {
					if n > 2000 {
						runtime.Gosched()
					}
				}
				child.(io.Closer).Close()
			}()
		}
		wg.Wait()
		if k%32 == 31 {
			tally.VerifReportPass(root)
		}
	}
	tally.VerifReportPass(root)
	if n := atomic.LoadInt64(&panics); n > 0 {
		c.Violation("panic-concurrent-close", map[string]interface{}{"why": fmt.Sprintf("%d of the Close calls made by %d goroutines on one child scope at the same moment panicked: %v", n, G, first.Load())})
	}
	_, agg, _ := pr.Snapshot()
	for k := 0; k < rounds; k++ {
		if a := agg[mon.IdentKey(fmt.Sprintf("dc%d.c", k), nil)]; a.Sum != 1 {
			c.Violation("contribution-lost", map[string]interface{}{"why": fmt.Sprintf("child dc%d was closed by %d goroutines at once after one increment: %d delivered", k, G, a.Sum)})
			break
		}
	}
	c.Event("children-closed-by-several-goroutines-at-once", rounds)
}
