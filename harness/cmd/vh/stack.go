package main

import (
	"fmt"
	"io"
	"math"
	"runtime"
	"strconv"
	"strings"
	"sync"
	"sync/atomic"
	"time"

	tally "github.com/uber-go/tally/v4"
	"github.com/uber-go/tally/v4/m3"
	m3thrift "github.com/uber-go/tally/v4/m3/thrift/v2"

	"github.com/uber-go/tally/v4/multi"
	tstatsd "github.com/uber-go/tally/v4/statsd"

	"verifharness/mon"
)

// "stack" mode: the properties anchored in the core (C01-C05, C08-C10) are
// about what reaches the backend. The other modes observe them at the
// reporter interface with recording reporters; this mode observes them where
// an application's operator does - behind the real reporters: on the wire
// behind the M3 reporter (decoded datagrams of a UDP sink) and in Gather() of
// the Prometheus reporter. Each property looks only at its own kind of
// evidence (kinds), so that a defect in, say, the M3 timer path does not
// raise the counter property.

// stackKinds per property: which comparisons of the end-to-end runs decide it.
var stackKinds = map[string]map[string]bool{
	"C01": {"counter": true, "histogram": true},
	"C02": {"gauge": true},
	"C03": {"histogram": true},
	"C04": {"identity": true},
	"C05": {"identity": true},
	"C08": {"burst": true},
	"C09": {"counter": true, "timer": true, "histogram": true, "shared": true},
	"C10": {"timer": true, "timer-value": true},
}

// promKinds restricts the comparisons of c17Values (nil = all, C17 itself).
var promKinds map[string]bool

func runStack(c *mon.Ctx) {
	kinds := stackKinds[c.Prop]
	if kinds == nil {
		c.Inconclusive("no stack mode for " + c.Prop)
		return
	}
	c.Cases(func(i int, r *mon.Rand) {
		switch c.Prop {
		case "C04", "C05":
			stackM3Identity(c, r.Fork(1), i)
			if c.Prop == "C04" {
				promKinds = kinds
				c17Values(c, r.Fork(2))
				promKinds = nil
				stackMultiTags(c, r.Fork(3))
			}
		case "C09":
			stackM3Values(c, r.Fork(1), kinds)
			c17Concurrent(c, r.Fork(2))
		case "C08":
			stackM3Values(c, r.Fork(1), kinds)
		default:
			stackM3Values(c, r.Fork(1), kinds)
			promKinds = kinds
			c17Values(c, r.Fork(2))
			promKinds = nil
			if c.Prop != "C03" {
				stackStatsd(c, r.Fork(3), kinds)
			}
			stackMultiValues(c, r.Fork(4), kinds)
		}
	})
}

// stackM3Values: a scope tree over the real M3 reporter with one live
// destination (a UDP sink) and, in half of the runs, a dead one next to it;
// small queues and packets; workers recording on identities of their own and
// on handles shared by all of them while passes run; a final burst of fresh
// counters right before Close. Oracle at the wire, per kind.
func stackM3Values(c *mon.Ctx, r *mon.Rand, kinds map[string]bool) {
	proto := m3.Compact
	if r.Bool() {
		proto = m3.Binary
	}
	opts := m3.Options{Service: "svc", Env: "test", Protocol: proto, MaxQueueSize: []int{1, 4, 64, 4096}[r.Intn(4)]}
	if r.Bool() {
		opts.MaxPacketSizeBytes = int32(r.Range(1500, 9000))
	}
	dead := r.Bool()
	if dead {
		opts.HostPorts = []string{mon.DeadPort()}
	}
	stopW := c.Watchdog(300*time.Second, "m3-call-or-close-does-not-return", "end-to-end run over the M3 reporter")
	defer stopW()
	env, err := newM3Env(1, opts, nil)
	if err != nil {
		c.Inconclusive("NewReporter: " + err.Error())
		return
	}
	c.Eval(1)
	rootTags := map[string]string{}
	if r.Bool() {
		rootTags["dc"] = "x1"
	}
	prefix := r.Pick("", "app")
	so := m3.DefaultSanitizerOpts
	root, closer := vNewRoot(tally.ScopeOptions{CachedReporter: env.Rep, Prefix: prefix, Tags: rootTags, SanitizeOptions: &so, OmitCardinalityMetrics: r.Bool()}, 0, uint(r.Range(0, 4)))
	nW := r.Range(2, 6)
	iters := r.Range(50, 800)
	burst := r.Range(20, 300)
	desc := map[string]interface{}{"mode": "stack/m3", "protocol": protoName(proto), "queue": opts.MaxQueueSize, "max_packet": opts.MaxPacketSizeBytes, "dead_destination_next_to_the_sink": dead,
		"workers": nW, "iterations": iters, "prefix": prefix, "burst_before_close": burst}
	c.LogCase(fmt.Sprint(desc))
	type wstate struct {
		ctrSum  map[string]int64
		gLast   map[string]uint64
		gAll    map[string]map[uint64]bool
		timers  map[string]map[int64]int
		hCounts map[string]map[int]int64
	}
	newState := func() *wstate {
		return &wstate{ctrSum: map[string]int64{}, gLast: map[string]uint64{}, gAll: map[string]map[uint64]bool{}, timers: map[string]map[int64]int{}, hCounts: map[string]map[int]int64{}}
	}
	states := make([]*wstate, nW)
	hspecV := []float64{-1, 0, 2.5, 10, 10, 100}
	hspecD := []time.Duration{0, time.Millisecond, 10 * time.Millisecond, time.Second}
	base := mon.RefName(prefix, ".", "")
	// handles shared by all workers (obtained once, used concurrently)
	sharedScope := root.Tagged(map[string]string{"w": "all"})
	sharedC := sharedScope.Counter("sc")
	sharedT := sharedScope.Timer("st")
	sharedH := sharedScope.Histogram("shv", tally.ValueBuckets(hspecV))
	var wg sync.WaitGroup
	var stop int32
	for w := 0; w < nW; w++ {
		st := newState()
		states[w] = st
		wg.Add(1)
		wr := r.Fork(uint64(w + 1))
		go func(w int) {
			defer wg.Done()
			c.Guard("panic-scope-m3", func() interface{} { return desc }, func() {
				wt := map[string]string{"w": strconv.Itoa(w)}
				own := root.Tagged(wt)
				id := func(n, ww string) string { return base + n + "|w" + ww }
				for i := 0; i < iters; i++ {
					switch wr.Intn(8) {
					case 7:
						// a duration histogram, samples beyond the largest bound included
						xs := []time.Duration{-1, 0, 1, time.Millisecond, 5 * time.Millisecond, time.Second, time.Minute, time.Hour}
						x := xs[wr.Intn(len(xs))]
						own.Histogram("hd", tally.DurationBuckets(hspecD)).RecordDuration(x)
						k := id("hd", strconv.Itoa(w))
						if st.hCounts[k] == nil {
							st.hCounts[k] = map[int]int64{}
						}
						st.hCounts[k][mon.RefPairIndexD(hspecD, x)]++
					case 0:
						v := int64(wr.Range(0, 1000))
						own.Counter("c").Inc(v)
						st.ctrSum[id("c", strconv.Itoa(w))] += v
					case 1:
						// one updater per gauge; hostile payloads
						v := wr.AnyFloat()
						own.Gauge("g").Update(v)
						k := id("g", strconv.Itoa(w))
						st.gLast[k] = math.Float64bits(v)
						if st.gAll[k] == nil {
							st.gAll[k] = map[uint64]bool{}
						}
						st.gAll[k][math.Float64bits(v)] = true
					case 2:
						d := time.Duration(int64(w+1)<<32 | int64(i))
						own.Timer("t").Record(d)
						k := id("t", strconv.Itoa(w))
						if st.timers[k] == nil {
							st.timers[k] = map[int64]int{}
						}
						st.timers[k][int64(d)]++
					case 3:
						xs := []float64{-5, -1, 0, 1, 2.5, 3, 10, 50, 100, 1000}
						x := xs[wr.Intn(len(xs))]
						own.Histogram("hv", tally.ValueBuckets(hspecV)).RecordValue(x)
						k := id("hv", strconv.Itoa(w))
						if st.hCounts[k] == nil {
							st.hCounts[k] = map[int]int64{}
						}
						st.hCounts[k][mon.RefPairIndexV(hspecV, x)]++
					case 4:
						v := int64(wr.Range(1, 9))
						sharedC.Inc(v)
						st.ctrSum[id("sc", "all")] += v
					case 5:
						d := time.Duration(int64(w+1)<<40 | int64(i))
						sharedT.Record(d)
						k := id("st", "all")
						if st.timers[k] == nil {
							st.timers[k] = map[int64]int{}
						}
						st.timers[k][int64(d)]++
					default:
						xs := []float64{-5, 0, 3, 10, 1000}
						x := xs[wr.Intn(len(xs))]
						sharedH.RecordValue(x)
						k := id("shv", "all")
						if st.hCounts[k] == nil {
							st.hCounts[k] = map[int]int64{}
						}
						st.hCounts[k][mon.RefPairIndexV(hspecV, x)]++
					}
					if wr.Chance(1, 50) {
						runtime.Gosched()
					}
				}
			})
		}(w)
	}
	var wgP sync.WaitGroup
	wgP.Add(1)
	go func() {
		defer wgP.Done()
		for atomic.LoadInt32(&stop) == 0 {
			tally.VerifReportPass(root)
			time.Sleep(100 * time.Microsecond)
		}
	}()
	wg.Wait()
	atomic.StoreInt32(&stop, 1)
	wgP.Wait()
	// second life with other bounds: a scope is closed and dropped, the same
	// prefix and tags are requested again and the histogram of the same name is
	// created with another specification - the reporter is asked for it again
	// and must use the new bounds
	relifeV1, relifeV2 := []float64{10, 20}, []float64{15, 100}
	c.Guard("panic-scope-m3", func() interface{} { return desc }, func() {
		s1 := root.Tagged(map[string]string{"w": "relife"})
		s1.Histogram("rh", tally.ValueBuckets(relifeV1)).RecordValue(5)
		tally.VerifReportPass(root)
		s1.(io.Closer).Close()
		tally.VerifReportPass(root)
		s2 := root.Tagged(map[string]string{"w": "relife"})
		s2.Histogram("rh", tally.ValueBuckets(relifeV2)).RecordValue(12)
		s2.Histogram("rh", tally.ValueBuckets(relifeV2)).RecordValue(50)
		tally.VerifReportPass(root)
	})
	// the burst: fresh counters incremented once, nothing passes them on before
	// Close does
	burstScope := root.Tagged(map[string]string{"w": "burst"})
	c.Guard("panic-scope-m3", func() interface{} { return desc }, func() {
		for k := 0; k < burst; k++ {
			burstScope.Counter("b" + strconv.Itoa(k)).Inc(int64(k + 1))
		}
	})
	if err := closer.Close(); err != nil {
		c.Violation("stack/close-error", map[string]interface{}{"why": err.Error(), "case": desc})
	}
	complete, why := env.finish()
	if !complete {
		c.Inconclusive(why)
		return
	}
	bad := func(kind, sig, whyS string) {
		if kinds[kind] {
			c.Violation("stack-m3/"+sig, map[string]interface{}{"why": whyS, "case": desc})
		}
	}
	msgs, problems := decodeAll(proto, env.Sinks[0].Datagrams())
	if len(problems) > 0 {
		// the wire format is C13/C16's business; without decodable datagrams
		// this run decides nothing
		c.Inconclusive("undecodable datagram: " + problems[0])
		return
	}
	gotCtr := map[string]int64{}
	gotGLast := map[string]uint64{}
	gotGTs := map[string]int64{}
	gotGAll := map[string][]uint64{}
	gotTimers := map[string]map[int64]int{}
	gotH := map[string]map[int]int64{}
	for _, m := range msgs {
		for _, met := range m.Batch.Metrics {
			if strings.Contains(met.Name, "tally.internal") || strings.Contains(met.Name, "tally_internal") {
				continue
			}
			w, bid := "", ""
			for _, t := range met.Tags {
				switch t.Name {
				case "w":
					w = t.Value
				case "bucketid":
					bid = t.Value
				}
			}
			id := met.Name + "|w" + w
			c.Event("metrics-decoded", 1)
			switch met.Value.MetricType {
			case m3thrift.MetricType_COUNTER:
				if bid != "" {
					n, _ := strconv.Atoi(bid)
					if gotH[id] == nil {
						gotH[id] = map[int]int64{}
					}
					gotH[id][n] += met.Value.Count
				} else {
					gotCtr[id] += met.Value.Count
				}
			case m3thrift.MetricType_GAUGE:
				// "last" by the reporter's own timestamp, not by arrival: loopback
				// datagrams can overtake each other between CPUs
				if met.Timestamp >= gotGTs[id] {
					gotGTs[id] = met.Timestamp
					gotGLast[id] = math.Float64bits(met.Value.Gauge)
				}
				gotGAll[id] = append(gotGAll[id], math.Float64bits(met.Value.Gauge))
			case m3thrift.MetricType_TIMER:
				if gotTimers[id] == nil {
					gotTimers[id] = map[int64]int{}
				}
				gotTimers[id][met.Value.Timer]++
			}
		}
	}
	// merge the workers' books (shared identities are split over them)
	all := newState()
	for _, st := range states {
		for id, v := range st.ctrSum {
			all.ctrSum[id] += v
		}
		for id, v := range st.gLast {
			all.gLast[id] = v
			all.gAll[id] = st.gAll[id]
		}
		for id, tm := range st.timers {
			if all.timers[id] == nil {
				all.timers[id] = map[int64]int{}
			}
			for v, n := range tm {
				all.timers[id][v] += n
			}
		}
		for id, hc := range st.hCounts {
			if all.hCounts[id] == nil {
				all.hCounts[id] = map[int]int64{}
			}
			for i, n := range hc {
				all.hCounts[id][i] += n
			}
		}
	}
	for id, sum := range all.ctrSum {
		if gotCtr[id] != sum {
			bad("counter", "counter-sum", fmt.Sprintf("%s: the counter values on the wire add up to %d, the increments to %d", id, gotCtr[id], sum))
		}
	}
	for id, last := range all.gLast {
		if gotGLast[id] != last {
			bad("gauge", "gauge-last", fmt.Sprintf("%s: last gauge value on the wire has bits %#x, the last update %#x", id, gotGLast[id], last))
		}
		for _, b := range gotGAll[id] {
			if !all.gAll[id][b] {
				bad("gauge", "gauge-invented", fmt.Sprintf("%s: gauge bits %#x on the wire were never passed to Update", id, b))
				break
			}
		}
	}
	for id, tm := range all.timers {
		for v, n := range tm {
			if gotTimers[id][v] != n {
				bad("timer", "timer-multiset", fmt.Sprintf("%s: timer value %d recorded %d times, on the wire %d times", id, v, n, gotTimers[id][v]))
				break
			}
		}
		for v, n := range gotTimers[id] {
			if tm[v] != n {
				bad("timer", "timer-multiset", fmt.Sprintf("%s: timer value %d on the wire %d times, recorded %d times", id, v, n, tm[v]))
				break
			}
		}
	}
	for id, hc := range all.hCounts {
		for idx, n := range hc {
			if gotH[id][idx] != n {
				bad("histogram", "histogram-bucket-sum", fmt.Sprintf("%s: bucket id %d: %d samples on the wire, %d recorded (wire per id: %v, recorded per index: %v)", id, idx, gotH[id][idx], n, gotH[id], hc))
				break
			}
		}
	}
	// first life: 5 in bucket 0 of {10,20}; second life: 12 in bucket 0 and 50 in
	// bucket 1 of {15,100} (with the first life's bounds 12 would be in bucket 1)
	if rh := gotH[base+"rh|wrelife"]; rh[0] != 2 || rh[1] != 1 || len(rh) != 2 {
		bad("histogram", "histogram-bucket-sum", fmt.Sprintf("histogram rh of a scope that was closed, dropped and obtained again with other bounds ({10,20} then {15,100}): samples on the wire per bucket id %v, want map[0:2 1:1]", rh))
	}
	for k := 0; k < burst; k++ {
		id := base + "b" + strconv.Itoa(k) + "|wburst"
		if gotCtr[id] != int64(k+1) {
			bad("burst", "recorded-before-close-not-delivered", fmt.Sprintf("%s: incremented by %d right before the root's Close, %d on the wire after Close returned (queue size %d, %d such counters)", id, k+1, gotCtr[id], opts.MaxQueueSize, burst))
			break
		}
	}
	c.Distinct(mon.Hash64(fmt.Sprint(desc), fmt.Sprint(r.U64())))
	if c.WantSample() {
		c.Sample(map[string]interface{}{"config": desc, "datagrams": len(msgs)})
	}
}

// stackM3Identity: names and tag sets as they arrive on the wire. Every
// identity (a Tagged scope) records values that only it uses, so a value that
// arrives under another identity's tags, and an identity that never arrives,
// are visible whatever the values add up to.
func stackM3Identity(c *mon.Ctx, r *mon.Rand, caseNo int) {
	proto := m3.Compact
	if r.Bool() {
		proto = m3.Binary
	}
	opts := m3.Options{Service: "svc", Env: "test", Protocol: proto, MaxQueueSize: 4096}
	stopW := c.Watchdog(300*time.Second, "m3-call-or-close-does-not-return", "end-to-end identity run over the M3 reporter")
	defer stopW()
	env, err := newM3Env(1, opts, nil)
	if err != nil {
		c.Inconclusive("NewReporter: " + err.Error())
		return
	}
	c.Eval(1)
	sopts := tally.ScopeOptions{CachedReporter: env.Rep, OmitCardinalityMetrics: true}
	if r.Bool() {
		so := m3.DefaultSanitizerOpts
		sopts.SanitizeOptions = &so
	}
	rootTags := map[string]string{}
	if r.Bool() {
		rootTags["dc"] = "x1"
		sopts.Tags = map[string]string{"dc": "x1"}
	}
	root, closer := vNewRoot(sopts, 0, uint(r.Range(0, 4)))
	// every sixth case: more distinct tag sets than the reporter's pools hold
	many := caseNo%6 == 0
	var sets []map[string]string
	if many {
		n := r.Range(4200, 5000)
		for i := 0; i < n; i++ {
			sets = append(sets, map[string]string{"shard": "s" + strconv.Itoa(i), "k": "v"})
		}
	} else {
		// twins and near-twins: empty values, one more key, values swapped
		n := r.Range(2, 12)
		for i := 0; i < n; i++ {
			v := "v" + strconv.Itoa(i)
			sets = append(sets,
				map[string]string{"a": v},
				map[string]string{"a": v, "canary": ""},
				map[string]string{"a": v, "b": ""},
				map[string]string{"a": "", "b": v},
				map[string]string{"a": v, "b": v + "x"},
				map[string]string{"a": v + "x", "b": v},
			)
		}
	}
	desc := map[string]interface{}{"mode": "stack/m3-identity", "protocol": protoName(proto), "tag_sets": len(sets), "more_than_4096_tag_sets": many, "sanitizer": sopts.SanitizeOptions != nil, "root_tags": len(rootTags)}
	c.LogCase(fmt.Sprint(desc))
	// value v belongs to identity v % len(sets); the round is v / len(sets)
	n := int64(len(sets))
	scopes := make([]tally.Scope, len(sets))
	c.Guard("panic-scope-m3", func() interface{} { return desc }, func() {
		for i, t := range sets {
			scopes[i] = root.Tagged(mon.CopyTags(t))
			scopes[i].Counter("wide").Inc(int64(i) + n) // round 1
		}
		tally.VerifReportPass(root)
		// second round on the earliest and on a few random identities
		for k := 0; k < 60 && k < len(sets); k++ {
			i := k
			if k >= 30 {
				i = r.Intn(len(sets))
			}
			scopes[i].Counter("wide").Inc(int64(i) + 2*n)
			tally.VerifReportPass(root)
		}
	})
	if err := closer.Close(); err != nil {
		c.Violation("stack/close-error", map[string]interface{}{"why": err.Error(), "case": desc})
	}
	complete, why := env.finish()
	if !complete {
		c.Inconclusive(why)
		return
	}
	msgs, problems := decodeAll(proto, env.Sinks[0].Datagrams())
	if len(problems) > 0 {
		c.Inconclusive("undecodable datagram: " + problems[0])
		return
	}
	seen := make([]bool, len(sets))
	for _, m := range msgs {
		for _, met := range m.Batch.Metrics {
			if met.Name != "wide" || met.Value.MetricType != m3thrift.MetricType_COUNTER {
				continue
			}
			c.Event("metrics-decoded", 1)
			v := met.Value.Count
			got := map[string]string{}
			for _, t := range met.Tags {
				got[t.Name] = t.Value
			}
			// a delta may combine rounds of one identity: v = i*k + n*(sum of rounds)
			// only if rounds were merged in one pass, which the program never does
			i := v % n
			if v < n || v >= 3*n {
				c.Violation("stack-m3/identity-value-unknown", map[string]interface{}{"why": fmt.Sprintf("counter value %d under tags %v matches no single increment of the program", v, got), "case": desc})
				continue
			}
			want := mon.RefOverlay(rootTags, sets[i])
			if !mon.TagsEqual(got, want) || len(met.Tags) != len(want) {
				c.Violation("stack-m3/value-under-other-identity", map[string]interface{}{"why": fmt.Sprintf("the increment %d was made on the scope tagged %v; on the wire it carries the tags %v", v, want, got), "case": desc})
				continue
			}
			seen[i] = true
		}
	}
	for i, ok := range seen {
		if !ok {
			c.Violation("stack-m3/identity-never-delivered", map[string]interface{}{"why": fmt.Sprintf("nothing arrived under the tags %v of identity %d although it was recorded on", mon.RefOverlay(rootTags, sets[i]), i), "case": desc})
			break
		}
	}
	c.Distinct(mon.Hash64(fmt.Sprint(desc), fmt.Sprint(r.U64())))
	if c.WantSample() {
		c.Sample(map[string]interface{}{"config": desc, "datagrams": len(msgs)})
	}
}

// stackStatsd: the plain-reporter path through the real StatsD reporter (the
// client is a recording statter, so there is no network in between): counter
// deltas arrive as Inc calls, gauge values as Gauge calls (integers here, the
// reporter truncates), timer values as TimingDuration calls, under the full
// dotted name (the reporter has no tags).
func stackStatsd(c *mon.Ctx, r *mon.Rand, kinds map[string]bool) {
	st := &recStatter{}
	rep := tstatsd.NewReporter(st, tstatsd.Options{})
	prefix := r.Pick("", "svc")
	root, closer := vNewRoot(tally.ScopeOptions{Prefix: prefix, Reporter: rep, OmitCardinalityMetrics: true}, 0, uint(r.Range(0, 3)))
	nW := r.Range(2, 5)
	iters := r.Range(30, 400)
	desc := map[string]interface{}{"mode": "stack/statsd", "prefix": prefix, "workers": nW, "iterations": iters}
	c.Eval(1)
	stopW := c.Watchdog(300*time.Second, "no-progress", desc)
	defer stopW()
	type book struct {
		ctr    map[string]int64
		gLast  map[string]int64
		gAll   map[string]map[int64]bool
		timers map[string]map[time.Duration]int
	}
	books := make([]*book, nW)
	shared := root.SubScope("all")
	sharedC, sharedT := shared.Counter("c"), shared.Timer("t")
	name := func(parts ...string) string { return mon.RefName(prefix, ".", parts...) }
	var wg sync.WaitGroup
	var stop int32
	for w := 0; w < nW; w++ {
		b := &book{ctr: map[string]int64{}, gLast: map[string]int64{}, gAll: map[string]map[int64]bool{}, timers: map[string]map[time.Duration]int{}}
		books[w] = b
		wg.Add(1)
		wr := r.Fork(uint64(w + 1))
		go func(w int) {
			defer wg.Done()
			c.Guard("panic-scope-statsd", func() interface{} { return desc }, func() {
				sub := "w" + strconv.Itoa(w)
				own := root.SubScope(sub)
				for i := 0; i < iters; i++ {
					switch wr.Intn(5) {
					case 0:
						v := int64(wr.Range(1, 1000))
						own.Counter("c").Inc(v)
						b.ctr[name(sub, "c")] += v
					case 1:
						v := int64(w+1)<<20 | int64(i)
						own.Gauge("g").Update(float64(v))
						k := name(sub, "g")
						b.gLast[k] = v
						if b.gAll[k] == nil {
							b.gAll[k] = map[int64]bool{}
						}
						b.gAll[k][v] = true
					case 2:
						d := time.Duration(int64(w+1)<<32 | int64(i))
						own.Timer("t").Record(d)
						k := name(sub, "t")
						if b.timers[k] == nil {
							b.timers[k] = map[time.Duration]int{}
						}
						b.timers[k][d]++
					case 3:
						v := int64(wr.Range(1, 9))
						sharedC.Inc(v)
						b.ctr[name("all", "c")] += v
					default:
						d := time.Duration(int64(w+1)<<40 | int64(i))
						sharedT.Record(d)
						k := name("all", "t")
						if b.timers[k] == nil {
							b.timers[k] = map[time.Duration]int{}
						}
						b.timers[k][d]++
					}
				}
			})
		}(w)
	}
	var wgP sync.WaitGroup
	wgP.Add(1)
	go func() {
		defer wgP.Done()
		for atomic.LoadInt32(&stop) == 0 {
			tally.VerifReportPass(root)
			time.Sleep(50 * time.Microsecond)
		}
	}()
	wg.Wait()
	atomic.StoreInt32(&stop, 1)
	wgP.Wait()
	closer.Close()
	bad := func(kind, sig, why string) {
		if kinds[kind] {
			c.Violation("stack-statsd/"+sig, map[string]interface{}{"why": why, "case": desc})
		}
	}
	gotCtr := map[string]int64{}
	gotGLast := map[string]int64{}
	gotTimers := map[string]map[time.Duration]int{}
	st.mu.Lock()
	calls := append([]statCall(nil), st.calls...)
	st.mu.Unlock()
	c.Event("statsd-client-calls", int64(len(calls)))
	wantG := map[string]map[int64]bool{}
	for _, b := range books {
		for k, set := range b.gAll {
			wantG[k] = set
		}
	}
	for _, cl := range calls {
		switch cl.Method {
		case "Inc":
			gotCtr[cl.Name] += cl.I
		case "Gauge":
			gotGLast[cl.Name] = cl.I
			if !wantG[cl.Name][cl.I] {
				bad("gauge", "gauge-invented", fmt.Sprintf("%s: the client received the gauge value %d, never passed to Update", cl.Name, cl.I))
			}
		case "TimingDuration":
			if gotTimers[cl.Name] == nil {
				gotTimers[cl.Name] = map[time.Duration]int{}
			}
			gotTimers[cl.Name][cl.D]++
		}
	}
	wantCtr := map[string]int64{}
	wantT := map[string]map[time.Duration]int{}
	for _, b := range books {
		for k, v := range b.ctr {
			wantCtr[k] += v
		}
		for k, v := range b.gLast {
			if gotGLast[k] != v {
				bad("gauge", "gauge-last", fmt.Sprintf("%s: the last gauge value the client received is %d, the last update %d", k, gotGLast[k], v))
			}
		}
		for k, tm := range b.timers {
			if wantT[k] == nil {
				wantT[k] = map[time.Duration]int{}
			}
			for d, n := range tm {
				wantT[k][d] += n
			}
		}
	}
	for k, v := range wantCtr {
		if gotCtr[k] != v {
			bad("counter", "counter-sum", fmt.Sprintf("%s: the increments the client received add up to %d, the increments made to %d", k, gotCtr[k], v))
		}
	}
	for k, tm := range wantT {
		if fmt.Sprint(gotTimers[k]) != fmt.Sprint(tm) {
			bad("timer", "timer-multiset", fmt.Sprintf("%s: %d distinct timer values recorded, the client received %d distinct values (or other multiplicities)", k, len(tm), len(gotTimers[k])))
		}
	}
	c.Distinct(mon.Hash64(fmt.Sprint(desc), fmt.Sprint(r.U64())))
}

// stackMultiTags: a scope over a multi reporter whose children differ in what
// they say about tagging (a name-only backend next to a tagging one): every
// child is handed the scope's name and tags; what a child does with tags it
// cannot use is its own business.
func stackMultiTags(c *mon.Ctx, r *mon.Rand) {
	n := r.Range(2, 4)
	cached := r.Bool()
	recs := make([]*mon.Recorder, n)
	var plain []tally.StatsReporter
	var cach []tally.CachedStatsReporter
	for i := range recs {
		caps := mon.Caps(true, r.Bool())
		if i == 0 {
			caps = mon.Caps(true, false) // the first child never tags
		}
		if cached {
			cr := mon.NewCachedRec(true)
			cr.Caps = caps
			recs[i], cach = cr.Recorder, append(cach, cr)
		} else {
			pr := mon.NewPlainRec(true)
			pr.Caps = caps
			recs[i], plain = pr.Recorder, append(plain, pr)
		}
	}
	opts := tally.ScopeOptions{OmitCardinalityMetrics: true, Prefix: r.Pick("", "svc")}
	if cached {
		opts.CachedReporter = multi.NewMultiCachedReporter(cach...)
	} else {
		opts.Reporter = multi.NewMultiReporter(plain...)
	}
	root, _ := vNewRoot(opts, 0, uint(r.Range(0, 2)))
	tags := map[string]string{"k": r.Ident(4), "zone": "z" + r.Ident(2)}
	desc := map[string]interface{}{"mode": "stack/multi-tags", "children": n, "cached": cached, "tags": tags}
	c.Eval(1)
	c.Guard("panic-scope-multi", func() interface{} { return desc }, func() {
		sc := root.Tagged(mon.CopyTags(tags)).SubScope("sub")
		sc.Counter("c").Inc(3)
		sc.Gauge("g").Update(1.5)
		sc.Timer("t").Record(time.Millisecond)
		sc.Histogram("h", tally.ValueBuckets{1}).RecordValue(0.5)
		tally.VerifReportPass(root)
	})
	name := mon.RefName(opts.Prefix, ".", "sub", "c")
	for i, rec := range recs {
		_, agg, _ := rec.Snapshot()
		if agg[mon.IdentKey(name, tags)].Sum != 3 {
			var seen []string
			for k, a := range agg {
				if a.N > 0 {
					seen = append(seen, k)
				}
			}
			c.Violation("stack-multi/wrong-name-or-tags", map[string]interface{}{"why": fmt.Sprintf("child %d of the multi reporter did not receive the counter under name %q and tags %v; it saw %q", i, name, tags, seen), "case": desc})
		}
	}
	c.Event("multi-children-checked", int64(n))
}

// stackMultiValues: a scope over a multi reporter (cached or plain, 2-3
// recording children) with two scopes whose metrics have different names and
// tags but the same joined rendering ("inflight" {route:"GET /v1+accept=json"}
// and "inflight+route=GET /v1" {accept:"json"}), plus an ordinary one: every
// child receives each identity's own values.
func stackMultiValues(c *mon.Ctx, r *mon.Rand, kinds map[string]bool) {
	n := r.Range(2, 3)
	cached := r.Bool()
	recs := make([]*mon.Recorder, n)
	var plain []tally.StatsReporter
	var cach []tally.CachedStatsReporter
	for i := range recs {
		// what a child says about its capabilities does not change what it is sent
		caps := mon.Caps(!r.Chance(1, 3), r.Bool())
		if cached {
			cr := mon.NewCachedRec(true)
			cr.Caps = caps
			recs[i], cach = cr.Recorder, append(cach, cr)
		} else {
			pr := mon.NewPlainRec(true)
			pr.Caps = caps
			recs[i], plain = pr.Recorder, append(plain, pr)
		}
	}
	opts := tally.ScopeOptions{OmitCardinalityMetrics: true}
	if cached {
		opts.CachedReporter = multi.NewMultiCachedReporter(cach...)
	} else {
		opts.Reporter = multi.NewMultiReporter(plain...)
	}
	root, _ := vNewRoot(opts, 0, uint(r.Range(0, 2)))
	type idn struct {
		name string
		tags map[string]string
	}
	ids := []idn{
		{"inflight", map[string]string{"route": "GET /v1+accept=json"}},
		{"inflight+route=GET /v1", map[string]string{"accept": "json"}},
		{"plainname", map[string]string{"k": r.Ident(3)}},
	}
	if r.Bool() {
		ids[0], ids[1] = ids[1], ids[0]
	}
	desc := map[string]interface{}{"mode": "stack/multi-values", "children": n, "cached": cached, "identities": fmt.Sprint(ids)}
	c.Eval(1)
	rounds := r.Range(1, 3)
	c.Guard("panic-scope-multi", func() interface{} { return desc }, func() {
		for k := 0; k < rounds; k++ {
			for i, id := range ids {
				sc := root.Tagged(mon.CopyTags(id.tags))
				sc.Counter(id.name).Inc(int64(1 + 10*i))
				sc.Gauge("g_" + id.name).Update(float64(100*(k+1) + i))
				sc.Timer("t_" + id.name).Record(time.Duration(1000*(k+1)+i) * time.Microsecond)
				sc.Histogram("h_"+id.name, tally.ValueBuckets{10}).RecordValue(1)
				if i > 0 {
					sc.Histogram("h_"+id.name, tally.ValueBuckets{10}).RecordValue(1)
				}
			}
			tally.VerifReportPass(root)
		}
	})
	bad := func(kind, why string) {
		if kinds[kind] {
			c.Violation("stack-multi/"+kind, map[string]interface{}{"why": why, "case": desc})
		}
	}
	for ci, rec := range recs {
		log, agg, _ := rec.Snapshot()
		for i, id := range ids {
			if got, want := agg[mon.IdentKey(id.name, id.tags)].Sum, int64(rounds*(1+10*i)); got != want {
				bad("counter", fmt.Sprintf("child %d: counter %q %v received %d in total, %d was added", ci, id.name, id.tags, got, want))
			}
			if got, want := agg[mon.IdentKey("g_"+id.name, id.tags)].LastBits, math.Float64bits(float64(100*rounds+i)); got != want {
				bad("gauge", fmt.Sprintf("child %d: gauge %q %v ends on %v, last update %v", ci, "g_"+id.name, id.tags, math.Float64frombits(got), math.Float64frombits(want)))
			}
			hw := int64(rounds)
			if i > 0 {
				hw *= 2
			}
			if got := agg[mon.BucketKeyV("h_"+id.name, id.tags, -math.MaxFloat64, 10)].Sum; got != hw {
				bad("histogram", fmt.Sprintf("child %d: histogram %q %v bucket (-max,10] received %d samples, %d recorded", ci, "h_"+id.name, id.tags, got, hw))
			}
			var timers []int64
			for _, ev := range log {
				if ev.Kind == mon.EvTimer && ev.Name == "t_"+id.name && mon.TagsEqual(ev.Tags, id.tags) {
					timers = append(timers, ev.I)
				}
			}
			var wantT []int64
			for k := 0; k < rounds; k++ {
				wantT = append(wantT, int64(time.Duration(1000*(k+1)+i)*time.Microsecond))
			}
			if fmt.Sprint(timers) != fmt.Sprint(wantT) {
				bad("timer", fmt.Sprintf("child %d: timer %q %v received %v, recorded %v", ci, "t_"+id.name, id.tags, timers, wantT))
			}
		}
	}
	c.Event("multi-children-value-checks", int64(n*len(ids)))
}
