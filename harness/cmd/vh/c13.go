package main

import (
	"fmt"
	"math"
	"os"
	"runtime"
	"strconv"
	"strings"
	"sync"
	"sync/atomic"
	"time"

	tally "github.com/uber-go/tally/v4"
	"github.com/uber-go/tally/v4/m3"
	m3thrift "github.com/uber-go/tally/v4/m3/thrift/v2"

	"verifharness/mon"
)

func init() { register("C13", runC13) }

func runC13(c *mon.Ctx) {
	if flagMode == "scope" {
		c.Cases(func(i int, r *mon.Rand) { c13Scope(c, r) })
		return
	}
	c.Cases(func(i int, r *mon.Rand) {
		c13Life(c, r)
		if i%25 == 0 {
			c13Backlog(c, r.Fork(5))
		}
		if i%25 == 12 {
			c13FullPackets(c, r.Fork(7))
		}
		if i%40 == 0 {
			c13BucketIDs(c, r.Fork(6), c.Batch+i/40)
		}
	})
}

// c13Backlog: the sender is held up for a quarter of a second (one slow send,
// injected at the transport's flush point) while callers go on reporting into
// the queue and return at once. What was queued during that time crosses
// several ticks of the reporter's clock before it is emitted; its timestamp
// must still be the time of the call, never a later one.
func c13Backlog(c *mon.Ctx, r *mon.Rand) {
	proto := m3.Compact
	if r.Bool() {
		proto = m3.Binary
	}
	var slept int32
	inner := func(id int) {
		if id == tally.VerifUDPFlushed && atomic.CompareAndSwapInt32(&slept, 0, 1) {
			time.Sleep(250 * time.Millisecond)
		}
	}
	env, err := newM3Env(1, m3.Options{Service: "svc", Env: "test", Protocol: proto, MaxQueueSize: 4096}, inner)
	if err != nil {
		c.Inconclusive("NewReporter: " + err.Error())
		return
	}
	c.Eval(1)
	desc := map[string]interface{}{"scenario": "backlog behind one slow send", "protocol": protoName(proto)}
	stopWatch := c.Watchdog(300*time.Second, "m3-call-or-close-does-not-return", desc)
	defer stopWatch()
	idents := genM3Idents(r, 6)
	var calls []m3Call
	c.Guard("panic-m3-producer", func() interface{} { return desc }, func() {
		first := allocM3(env.Rep, &m3Ident{Kind: "counter", Name: "before-the-slow-send", Tags: map[string]string{"p": "0"}})
		calls = append(calls, first.report(r, 0, 0))
		env.Rep.Flush() // the sender emits this batch and is then held up
		time.Sleep(20 * time.Millisecond)
		for i := 0; i < 60; i++ {
			h := allocM3(env.Rep, &idents[r.Intn(len(idents))])
			calls = append(calls, h.report(r, 1, i+1))
		}
	})
	closeErr := env.Rep.Close()
	complete, why := env.finish()
	if closeErr != nil {
		c.Violation("close-error", map[string]interface{}{"why": closeErr.Error(), "case": desc})
	}
	if !complete {
		c.Inconclusive(why)
		return
	}
	lastAfter := map[string]int64{}
	for _, cl := range calls {
		if cl.TAfter > lastAfter[cl.key()] {
			lastAfter[cl.key()] = cl.TAfter
		}
	}
	msgs, _ := decodeAll(proto, env.Sinks[0].Datagrams())
	n := 0
	for _, m := range msgs {
		for _, met := range m.Batch.Metrics {
			k, _, _, _, internal := decodedKey(met, "bucketid", "bucket")
			if internal {
				continue
			}
			la, ok := lastAfter[k]
			if !ok {
				continue
			}
			n++
			if met.Timestamp > la {
				c.Violation("timestamp-after-call", map[string]interface{}{"why": fmt.Sprintf("metric %s was queued while the sender was held up; it carries the timestamp %d, its report call had returned at %d (%d ms earlier)", k, met.Timestamp, la, (met.Timestamp-la)/1e6), "case": desc})
				break
			}
			if met.Timestamp < env.TC0 {
				c.Violation("timestamp-before-construction", map[string]interface{}{"why": fmt.Sprintf("metric %s carries the timestamp %d, the reporter was constructed at >= %d", k, met.Timestamp, env.TC0), "case": desc})
				break
			}
		}
	}
	c.Event("backlog-timestamps-checked", int64(n))
	c.Distinct(mon.Hash64("backlog", fmt.Sprint(r.U64())))
}

type m3Ident struct {
	Kind  string
	Name  string
	Tags  map[string]string
	IsDur bool
	V     []float64
	D     []time.Duration
}

func genM3Idents(r *mon.Rand, n int) []m3Ident {
	names := make([]string, 1+n/3)
	for i := range names {
		names[i] = "n" + strconv.Itoa(i) + genBytes(r, 30)
	}
	if r.Chance(1, 3) {
		names[0] = "" // the empty metric name is a name like any other
	}
	if r.Chance(1, 3) {
		// a name of exactly a power-of-two length (codec scratch buffers)
		k := r.Intn(len(names))
		want := []int{63, 64, 65, 128}[r.Intn(4)]
		for len(names[k]) < want {
			names[k] += "p"
		}
		names[k] = names[k][:want]
	}
	tagsets := make([]map[string]string, 1+n/2)
	for i := range tagsets {
		tagsets[i] = genM3Tags(r)
	}
	if len(tagsets) >= 2 && r.Chance(1, 4) {
		tagsets[0], tagsets[1] = map[string]string{"x=y": ""}, map[string]string{"x": "y="}
		if r.Bool() {
			tagsets[0], tagsets[1] = tagsets[1], tagsets[0]
		}
	}
	out := make([]m3Ident, n)
	for i := range out {
		id := m3Ident{Name: names[r.Intn(len(names))], Tags: tagsets[r.Intn(len(tagsets))]}
		switch r.Intn(5) {
		case 0, 1:
			id.Kind = "counter"
		case 2:
			id.Kind = "gauge"
		case 3:
			id.Kind = "timer"
		default:
			id.Kind = "hist"
			id.Name += "/h" + strconv.Itoa(i) // one spec per histogram name
			if r.Bool() {
				id.IsDur = true
				id.D = r.DurationSpec(8)
			} else {
				id.V = r.ValueSpec(8)
			}
		}
		out[i] = id
	}
	// a third of the identity sets: a second value histogram whose bounds differ
	// from an existing one's by less than the rendering precision (1e-7) - two
	// histograms with bounds, bucket ids and samples of their own
	if r.Chance(1, 3) {
		for i := range out {
			if out[i].Kind == "hist" && !out[i].IsDur && len(out[i].V) > 0 {
				tw := out[i]
				tw.Name += "~near"
				tw.V = append([]float64(nil), out[i].V...)
				for k := range tw.V {
					tw.V[k] += 1e-7 * float64(k+1)
				}
				out = append(out, tw)
				break
			}
		}
	}
	return out
}

type m3Handle struct {
	id   *m3Ident
	cnt  tally.CachedCount
	g    tally.CachedGauge
	t    tally.CachedTimer
	h    tally.CachedHistogram
	bkts []tally.CachedHistogramBucket
	pv   []mon.PairV
	pd   []mon.PairD
}

func allocM3(rep m3.Reporter, id *m3Ident) *m3Handle {
	h := &m3Handle{id: id}
	switch id.Kind {
	case "counter":
		h.cnt = rep.AllocateCounter(id.Name, id.Tags)
	case "gauge":
		h.g = rep.AllocateGauge(id.Name, id.Tags)
	case "timer":
		h.t = rep.AllocateTimer(id.Name, id.Tags)
	case "hist":
		if id.IsDur {
			h.h = rep.AllocateHistogram(id.Name, id.Tags, tally.DurationBuckets(append([]time.Duration(nil), id.D...)))
			h.pd = mon.RefPairsD(id.D)
			for _, p := range h.pd {
				h.bkts = append(h.bkts, h.h.DurationBucket(p.Lo, p.Hi))
			}
		} else {
			h.h = rep.AllocateHistogram(id.Name, id.Tags, tally.ValueBuckets(append([]float64(nil), id.V...)))
			h.pv = mon.RefPairsV(id.V)
			for _, p := range h.pv {
				h.bkts = append(h.bkts, h.h.ValueBucket(p.Lo, p.Hi))
			}
		}
	}
	return h
}

// report makes one call with a value derived from (producer, seq) and logs it.
func (h *m3Handle) report(r *mon.Rand, producer, seq int) m3Call {
	uniq := uint64(producer+1)<<40 | uint64(seq)<<4
	c := m3Call{Kind: h.id.Kind, Name: h.id.Name, Tags: h.id.Tags}
	extreme := r.Chance(1, 12)
	switch h.id.Kind {
	case "counter":
		v := int64(uniq)
		if extreme {
			v = []int64{0, -1, math.MaxInt64, math.MinInt64, 1}[r.Intn(5)]
		}
		c.Val = uint64(v)
		h.cnt.ReportCount(v)
	case "gauge":
		bits := math.Float64bits(float64(uniq))
		if extreme {
			bits = []uint64{0, math.Float64bits(math.Inf(1)), math.Float64bits(-math.MaxFloat64), 0x7ff8000000000000 | uniq, 1, 1 << 63 /* -0 */, math.Float64bits(math.Inf(-1)), 0xfff8000000000001}[r.Intn(8)]
		}
		c.Val = bits
		h.g.ReportGauge(math.Float64frombits(bits))
	case "timer":
		v := int64(uniq)
		if extreme {
			v = []int64{0, -1, math.MaxInt64, math.MinInt64}[r.Intn(4)]
		}
		c.Val = uint64(v)
		h.t.ReportTimer(time.Duration(v))
	case "hist":
		i := r.Intn(len(h.bkts))
		v := int64(uniq)
		c.Val = uint64(v)
		c.BucketN = i
		c.HistID = fmt.Sprintf("%d:%s|%s", len(h.id.Name), h.id.Name, tagsMapKey(h.id.Tags))
		if h.id.IsDur {
			c.Lo, c.Hi = fmt.Sprint(int64(h.pd[i].Lo)), fmt.Sprint(int64(h.pd[i].Hi))
			c.HiD, c.IsDur = int64(h.pd[i].Hi), true
		} else {
			c.Lo, c.Hi = fstr(h.pv[i].Lo), fstr(h.pv[i].Hi)
			c.HiV = h.pv[i].Hi
		}
		h.bkts[i].ReportSamples(v)
	}
	c.TAfter = time.Now().UnixNano()
	return c
}

func c13Life(c *mon.Ctx, r *mon.Rand) {
	proto := m3.Compact
	if r.Bool() {
		proto = m3.Binary
	}
	nSinks := 1
	if r.Chance(1, 4) {
		nSinks = r.Range(2, 3)
	}
	opts := m3.Options{Service: "svc", Env: "test", Protocol: proto, MaxQueueSize: []int{1, 2, 16, 4096, 0}[r.Intn(5)]}
	common := map[string]string{}
	nCommonTags := r.Intn(4)
	if r.Chance(1, 5) {
		nCommonTags = r.Range(8, 14)
	}
	for i := 0; i < nCommonTags; i++ {
		common["ct"+strconv.Itoa(i)] = genBytes(r, 16)
	}
	if r.Chance(1, 4) {
		common["service"] = "from-common-tags"
	}
	opts.CommonTags = common
	if r.Bool() {
		opts.MaxPacketSizeBytes = int32(r.Range(2000, 40000))
	}
	idName, bName := "bucketid", "bucket"
	if r.Chance(1, 3) {
		idName, bName = "bid", "bkt"
		opts.HistogramBucketIDName, opts.HistogramBucketName = idName, bName
	}
	if r.Chance(1, 3) {
		opts.HistogramBucketTagPrecision = uint(r.Range(1, 9))
	}
	hostTag := ""
	if r.Chance(1, 4) {
		opts.IncludeHost = true
		if r.Bool() {
			common["host"] = "configured-host"
			hostTag = "configured-host"
		} else {
			hostTag, _ = os.Hostname()
		}
	}
	if !opts.IncludeHost && r.Chance(1, 6) {
		// a "host" common tag configured by the application itself, without the
		// IncludeHost option: a common tag like any other
		common["host"] = "host-from-common-tags"
		c.Class("lifetimes-with-a-configured-host-tag-and-IncludeHost-off", 1)
	}
	m3ViaConfiguration = r.Chance(1, 6)
	defer func() { m3ViaConfiguration = false }()
	// every fifth lifetime has one more destination that is a dead port (send
	// errors on that destination): the live sinks must still see every value
	// exactly once
	deadDest := r.Chance(1, 5)
	if deadDest {
		opts.HostPorts = []string{mon.DeadPort()}
		c.Class("lifetimes-with-one-dead-destination-next-to-live-sinks", 1)
	}
	nProd := r.Range(1, 8)
	nIdents := r.Range(1, 60)
	if r.Chance(1, 6) {
		nIdents = r.Range(100, 200)
	}
	perProd := r.Range(1, 300)
	idents := genM3Idents(r, nIdents)
	// a third of the lifetimes: up to six identities get a twin whose tags repeat
	// common tags of the reporter, name and value (env, and every configured
	// common tag): a metric's tags are its own, whatever the batch carries
	if r.Chance(1, 3) {
		n := len(idents)
		if n > 6 {
			n = 6
		}
		for i := 0; i < n; i++ {
			tw := idents[i]
			tw.Tags = copyTagMap(tw.Tags)
			if tw.Tags == nil {
				tw.Tags = map[string]string{}
			}
			tw.Tags["env"] = "test"
			for k, v := range common {
				if i%2 == 0 || len(k) > 2 {
					tw.Tags[k] = v
				}
			}
			idents = append(idents, tw)
		}
		nIdents = len(idents)
		c.Class("lifetimes-with-metric-tags-repeating-common-tags", 1)
	}
	// every twelfth lifetime allocates more distinct tag sets than the reporter's
	// pools and caches hold (4096 pooled tag slices), each reported at least once
	// at the end by the first producer - the earliest ones included
	manyTagSets := r.Chance(1, 12)
	if manyTagSets {
		n := r.Range(4200, 5200)
		idents = idents[:0]
		for i := 0; i < n; i++ {
			idents = append(idents, m3Ident{Kind: "counter", Name: "wide", Tags: map[string]string{"shard": "s" + strconv.Itoa(i), "k": "v"}})
		}
		nIdents = n
		c.Class("lifetimes-with-more-than-4096-distinct-tag-sets", 1)
	}
	// every tenth lifetime: a large packet limit and identities whose names are
	// 16,383, 16,384 and 16,385 bytes long (lengths around 2^14, where the
	// compact protocol's length prefix grows to three bytes)
	if !manyTagSets && r.Chance(1, 10) {
		opts.MaxPacketSizeBytes = int32(r.Range(40000, 64000))
		for k, n := range []int{16383, 16384, 16385} {
			idents = append(idents, m3Ident{Kind: []string{"counter", "gauge", "timer"}[k], Name: strings.Repeat("v", n), Tags: map[string]string{"len": strconv.Itoa(n)}})
		}
		nIdents = len(idents)
		c.Class("lifetimes-with-names-of-2^14-bytes", 1)
	}
	// every eighth lifetime: a small packet limit and one identity whose name
	// alone is longer than a packet - it travels alone, but it travels
	if !manyTagSets && r.Chance(1, 8) {
		opts.MaxPacketSizeBytes = int32(r.Range(1500, 2500))
		idents = append(idents, m3Ident{Kind: "counter", Name: strings.Repeat("L", 3000), Tags: map[string]string{"big": "1"}})
		nIdents++
		c.Class("lifetimes-with-a-metric-larger-than-a-packet", 1)
	}
	desc := map[string]interface{}{"protocol": protoName(proto), "sinks": nSinks, "queue": opts.MaxQueueSize, "max_packet": opts.MaxPacketSizeBytes,
		"dead_destination_first": deadDest, "more_than_4096_tag_sets": manyTagSets, "common_tags": len(common), "include_host": opts.IncludeHost, "via_configuration": m3ViaConfiguration, "producers": nProd, "identities": nIdents, "calls_per_producer": perProd, "bucket_tag_names": idName + "/" + bName}
	c.LogCase(fmt.Sprint(desc))
	stopWatch := c.Watchdog(300*time.Second, "m3-call-or-close-does-not-return", desc)
	defer stopWatch()
	env, err := newM3Env(nSinks, opts, nil)
	if err != nil {
		c.Inconclusive("NewReporter: " + err.Error())
		return
	}
	c.Eval(1)
	calls := make([][]m3Call, nProd+1)
	// a report issued immediately after construction
	first := allocM3(env.Rep, &m3Ident{Kind: "counter", Name: "first-after-construction", Tags: map[string]string{"p": "0"}})
	fc := first.report(r.Fork(1), nProd, 0)
	calls[nProd] = append(calls[nProd], fc)
	var wg sync.WaitGroup
	for p := 0; p < nProd; p++ {
		wg.Add(1)
		pr := r.Fork(uint64(p + 10))
		go func(p int) {
			defer wg.Done()
			c.Guard("panic-m3-producer", func() interface{} { return desc }, func() {
				var hs []*m3Handle
				n := pr.Range(1, 12)
				for k := 0; k < n; k++ {
					hs = append(hs, allocM3(env.Rep, &idents[pr.Intn(len(idents))]))
				}
				if manyTagSets && p == 0 {
					hs = hs[:0]
					for k := range idents {
						hs = append(hs, allocM3(env.Rep, &idents[k]))
					}
					for k := range hs {
						calls[p] = append(calls[p], hs[k].report(pr, p, k))
					}
				}
				for i := 0; i < perProd; i++ {
					if pr.Chance(1, 40) {
						env.Rep.Flush()
						continue
					}
					if pr.Chance(1, 30) {
						hs = append(hs, allocM3(env.Rep, &idents[pr.Intn(len(idents))]))
					}
					calls[p] = append(calls[p], hs[pr.Intn(len(hs))].report(pr, p, i))
				}
			})
		}(p)
	}
	wg.Wait()
	closeErr := env.Rep.Close()
	closeReturned := mon.NextSeq()
	complete, why := env.finish()
	if closeErr != nil {
		c.Violation("close-error", map[string]interface{}{"why": closeErr.Error(), "case": desc})
	}
	if !complete {
		c.Inconclusive(why)
		return
	}
	bad := func(sig, whyS string) { c.Violation(sig, map[string]interface{}{"why": whyS, "case": desc}) }
	for _, s := range env.flushes() {
		if s > closeReturned {
			bad("emitted-after-close-returned", "a datagram was written to the socket after Close had returned")
		}
	}
	want := map[string]int{}
	lastAfter := map[string]int64{}
	histBucket := map[string]m3Call{}
	ncalls := 0
	for _, cs := range calls {
		for _, cl := range cs {
			k := cl.key()
			want[k]++
			ncalls++
			if cl.TAfter > lastAfter[k] {
				lastAfter[k] = cl.TAfter
			}
			if cl.Kind == "hist" {
				histBucket[k] = cl
			}
		}
	}
	c.Event("report-calls", int64(ncalls))
	wantCommon := map[string]string{"service": "svc", "env": "test"}
	for k, v := range common {
		wantCommon[k] = v
	}
	if opts.IncludeHost {
		wantCommon["host"] = hostTag
	}
	for si, sink := range env.Sinks {
		msgs, problems := decodeAll(proto, sink.Datagrams())
		for _, p := range problems {
			bad("malformed-datagram", fmt.Sprintf("destination %d: %s", si, p))
		}
		c.Event("datagrams-decoded", int64(len(msgs)))
		got := map[string]int{}
		type bt struct {
			id, b string
			hiV   float64
			hiD   int64
		}
		type rangeOf struct {
			hist, lo, hi string
			hiV          float64
			hiD          int64
			isDur        bool
		}
		rangeOwner := map[string]rangeOf{} // bucket-range tag value -> first bucket seen with it
		effPrec := opts.HistogramBucketTagPrecision
		if effPrec == 0 {
			effPrec = 6
		}
		bucketTags := map[string]bt{}          // hist id + bucket index -> tags seen
		histBuckets := map[string]map[int]bt{} // hist id -> bucket index -> tags
		for _, m := range msgs {
			ct := map[string]string{}
			for _, t := range m.Batch.CommonTags {
				ct[t.Name] = t.Value
			}
			if !mon.TagsEqual(ct, wantCommon) || len(m.Batch.CommonTags) != len(wantCommon) {
				bad("common-tags", fmt.Sprintf("destination %d: batch carries common tags %v, configured %v", si, ct, wantCommon))
			}
			for _, met := range m.Batch.Metrics {
				c.Event("metrics-decoded", 1)
				k, bid, bname, isHist, internal := decodedKey(met, idName, bName)
				if internal {
					continue
				}
				got[k]++
				if want[k] == 0 {
					bad("unreported-metric-emitted", fmt.Sprintf("destination %d: emitted metric %s was never reported (wrong name, kind, value or tags)", si, k))
					continue
				}
				if met.Timestamp < env.TC0 || met.Timestamp > lastAfter[k] {
					sig := "timestamp-after-call"
					if met.Timestamp < env.TC0 {
						sig = "timestamp-before-construction"
					}
					bad(sig, fmt.Sprintf("metric %s carries timestamp %d; reporter constructed at >= %d, call returned at %d", k, met.Timestamp, env.TC0, lastAfter[k]))
				}
				if isHist {
					cl := histBucket[k]
					hk := cl.HistID + "#" + strconv.Itoa(cl.BucketN)
					if prev, ok := bucketTags[hk]; ok && (prev.id != bid || prev.b != bname) {
						bad("bucket-tags-differ", fmt.Sprintf("histogram %s bucket %d (%s,%s] carried tags %s/%s and %s/%s", cl.HistID, cl.BucketN, cl.Lo, cl.Hi, prev.id, prev.b, bid, bname))
					}
					bucketTags[hk] = bt{bid, bname, cl.HiV, cl.HiD}
					// the bucket-range tag denotes the bucket's own range: one tag value
					// must not stand for two buckets whose upper bounds differ by more than
					// the configured precision can hide (durations render exactly)
					if prev, ok := rangeOwner[bname]; ok && prev.isDur == cl.IsDur {
						differ := false
						if cl.IsDur {
							differ = prev.hiD != cl.HiD
						} else {
							tol := 2 * math.Pow(10, -float64(effPrec))
							differ = math.Abs(prev.hiV-cl.HiV) > tol && !(math.IsInf(prev.hiV-cl.HiV, 0))
						}
						if differ {
							bad("bucket-range-tag-of-another-bucket", fmt.Sprintf("bucket-range tag %q is carried by histogram %s bucket (%s,%s] and by histogram %s bucket (%s,%s]", bname, prev.hist, prev.lo, prev.hi, cl.HistID, cl.Lo, cl.Hi))
						}
					} else if !ok {
						rangeOwner[bname] = rangeOf{cl.HistID, cl.Lo, cl.Hi, cl.HiV, cl.HiD, cl.IsDur}
					}
					if histBuckets[cl.HistID] == nil {
						histBuckets[cl.HistID] = map[int]bt{}
					}
					histBuckets[cl.HistID][cl.BucketN] = bt{bid, bname, cl.HiV, cl.HiD}
				} else if _, wasHist := histBucket[k]; wasHist {
					bad("bucket-tags-missing", fmt.Sprintf("histogram sample %s emitted without its bucket tags", k))
				}
			}
		}
		for k, n := range want {
			if got[k] != n {
				bad("not-exactly-once", fmt.Sprintf("destination %d: %s reported %d times before Close, emitted %d times", si, k, n, got[k]))
			}
		}
		// bucket ids strictly increase with the bucket index (= with the upper bound)
		for hid, bs := range histBuckets {
			prevIdx, prevID := -1, int64(-1)
			var prevB bt
			for i := 0; i < 100; i++ {
				b, ok := bs[i]
				if !ok {
					continue
				}
				n, err := strconv.ParseInt(b.id, 10, 64)
				if err != nil {
					bad("bucket-id-not-numeric", fmt.Sprintf("histogram %s bucket %d has id %q", hid, i, b.id))
					continue
				}
				sameBound := prevIdx >= 0 && prevB.hiV == b.hiV && prevB.hiD == b.hiD
				if prevIdx >= 0 && ((!sameBound && n <= prevID) || (sameBound && n != prevID)) {
					bad("bucket-ids-not-increasing", fmt.Sprintf("histogram %s: bucket %d has id %d, bucket %d has id %d (equal upper bounds: %v)", hid, prevIdx, prevID, i, n, sameBound))
				}
				prevIdx, prevID, prevB = i, n, b
			}
		}
	}
	c.Distinct(mon.Hash64(fmt.Sprint(desc), fmt.Sprint(r.U64())))
	if c.WantSample() {
		s := map[string]interface{}{"config": desc}
		if d := env.Sinks[0].Datagrams(); len(d) > 0 {
			if m, err := decodeDatagram(proto, d[0]); err == nil && len(m.Batch.Metrics) > 0 {
				s["first_datagram"] = map[string]interface{}{"bytes": len(d[0]), "metrics": len(m.Batch.Metrics), "first_metric": fmt.Sprintf("%.300s", fmt.Sprintf("%+v", m.Batch.Metrics[0]))}
			}
		}
		c.Sample(s)
	}
}

// c13Scope: end to end - a tally scope tree backed by the real M3 reporter,
// concurrent recorders, ticker and manual passes, root Close; the oracle is at
// the wire: per identity, decoded counter values add up to the increments,
// the last decoded gauge value is the last update, timers arrive as the exact
// multiset, histogram samples add up per bucket id.
func c13Scope(c *mon.Ctx, r *mon.Rand) {
	proto := m3.Compact
	if r.Bool() {
		proto = m3.Binary
	}
	opts := m3.Options{Service: "svc", Env: "test", Protocol: proto, MaxQueueSize: []int{4, 64, 4096}[r.Intn(3)]}
	if r.Bool() {
		opts.MaxPacketSizeBytes = int32(r.Range(1500, 9000))
	}
	env, err := newM3Env(1, opts, nil)
	if err != nil {
		c.Inconclusive("NewReporter: " + err.Error())
		return
	}
	c.Eval(1)
	interval := time.Duration(0)
	if r.Bool() {
		interval = time.Duration(r.Range(200, 3000)) * time.Microsecond
	}
	rootTags := map[string]string{}
	if r.Bool() {
		rootTags["dc"] = "x1"
	}
	prefix := r.Pick("", "app")
	so := m3.DefaultSanitizerOpts
	root, closer := vNewRoot(tally.ScopeOptions{CachedReporter: env.Rep, Prefix: prefix, Tags: rootTags, SanitizeOptions: &so, OmitCardinalityMetrics: r.Bool()}, interval, uint(r.Range(0, 4)))
	nW := r.Range(1, 6)
	iters := r.Range(50, 1500)
	desc := map[string]interface{}{"mode": "scope", "protocol": protoName(proto), "queue": opts.MaxQueueSize, "max_packet": opts.MaxPacketSizeBytes, "interval_us": interval.Microseconds(), "workers": nW, "iterations": iters, "prefix": prefix}
	c.LogCase(fmt.Sprint(desc))
	type wstate struct {
		ctrSum  map[string]int64
		gLast   map[string]uint64
		gAll    map[string]map[uint64]bool
		timers  map[string]map[int64]int
		hCounts map[string]map[int]int64
	}
	states := make([]*wstate, nW)
	hspecV := []float64{-1, 0, 2.5, 10, 10, 100}
	hspecD := []time.Duration{0, time.Millisecond, 10 * time.Millisecond, time.Second}
	var wg sync.WaitGroup
	var stop int32
	for w := 0; w < nW; w++ {
		st := &wstate{ctrSum: map[string]int64{}, gLast: map[string]uint64{}, gAll: map[string]map[uint64]bool{}, timers: map[string]map[int64]int{}, hCounts: map[string]map[int]int64{}}
		states[w] = st
		wg.Add(1)
		wr := r.Fork(uint64(w + 1))
		go func(w int) {
			defer wg.Done()
			c.Guard("panic-scope-m3", func() interface{} { return desc }, func() {
				// every worker owns its identities (worker tag), so sums are exact per worker
				wt := map[string]string{"w": strconv.Itoa(w)}
				scopes := []tally.Scope{root.Tagged(wt), root.SubScope("sub").Tagged(wt), root.Tagged(wt).SubScope("deep").SubScope("er")}
				names := []string{mon.RefName(prefix, ".", ""), mon.RefName(prefix, ".", "sub", ""), mon.RefName(prefix, ".", "deep", "er", "")}
				for i := 0; i < iters; i++ {
					k := wr.Intn(len(scopes))
					s, base := scopes[k], names[k]
					id := func(n string) string { return base + n + "|w" + strconv.Itoa(w) }
					switch wr.Intn(5) {
					case 0:
						v := int64(wr.Range(0, 1000))
						s.Counter("c").Inc(v)
						st.ctrSum[id("c")] += v
					case 1:
						v := float64(uint64(w+1)<<32 | uint64(i))
						s.Gauge("g").Update(v)
						st.gLast[id("g")] = math.Float64bits(v)
						if st.gAll[id("g")] == nil {
							st.gAll[id("g")] = map[uint64]bool{}
						}
						st.gAll[id("g")][math.Float64bits(v)] = true
					case 2:
						d := time.Duration(int64(w+1)<<32 | int64(i))
						s.Timer("t").Record(d)
						if st.timers[id("t")] == nil {
							st.timers[id("t")] = map[int64]int{}
						}
						st.timers[id("t")][int64(d)]++
					case 3:
						xs := []float64{-5, -1, 0, 1, 2.5, 3, 10, 50, 100, 1000}
						x := xs[wr.Intn(len(xs))]
						s.Histogram("hv", tally.ValueBuckets(hspecV)).RecordValue(x)
						if st.hCounts[id("hv")] == nil {
							st.hCounts[id("hv")] = map[int]int64{}
						}
						st.hCounts[id("hv")][mon.RefPairIndexV(hspecV, x)]++
					default:
						xs := []time.Duration{-1, 0, 1, time.Millisecond, 5 * time.Millisecond, time.Second, time.Minute}
						x := xs[wr.Intn(len(xs))]
						s.Histogram("hd", tally.DurationBuckets(hspecD)).RecordDuration(x)
						if st.hCounts[id("hd")] == nil {
							st.hCounts[id("hd")] = map[int]int64{}
						}
						st.hCounts[id("hd")][mon.RefPairIndexD(hspecD, x)]++
					}
					if wr.Chance(1, 50) {
						runtime.Gosched()
					}
				}
			})
		}(w)
	}
	var wgP sync.WaitGroup
	wgP.Add(1)
	go func() {
		defer wgP.Done()
		for atomic.LoadInt32(&stop) == 0 {
			tally.VerifReportPass(root)
			time.Sleep(100 * time.Microsecond)
		}
	}()
	wg.Wait()
	atomic.StoreInt32(&stop, 1)
	wgP.Wait()
	if err := closer.Close(); err != nil {
		c.Violation("close-error", map[string]interface{}{"why": err.Error(), "case": desc})
	}
	complete, why := env.finish()
	if !complete {
		c.Inconclusive(why)
		return
	}
	bad := func(sig, whyS string) { c.Violation("scope/"+sig, map[string]interface{}{"why": whyS, "case": desc}) }
	msgs, problems := decodeAll(proto, env.Sinks[0].Datagrams())
	for _, p := range problems {
		bad("malformed-datagram", p)
	}
	gotCtr := map[string]int64{}
	gotGLast := map[string]uint64{}
	gotGTs := map[string]int64{}
	gotGAll := map[string][]uint64{}
	gotTimers := map[string]map[int64]int{}
	gotH := map[string]map[int]int64{}
	for _, m := range msgs {
		for _, met := range m.Batch.Metrics {
			if strings.HasPrefix(met.Name, "tally.internal") || strings.Contains(met.Name, "tally_internal") || strings.Contains(met.Name, "tally.internal") {
				continue
			}
			w, bid := "", ""
			for _, t := range met.Tags {
				switch t.Name {
				case "w":
					w = t.Value
				case "bucketid":
					bid = t.Value
				}
			}
			id := met.Name + "|w" + w
			c.Event("metrics-decoded", 1)
			if c.Verbose {
				fmt.Println("DEC", id, met.Value.MetricType, bid)
			}
			switch met.Value.MetricType {
			case m3thrift.MetricType_COUNTER:
				if bid != "" {
					n, _ := strconv.Atoi(bid)
					if gotH[id] == nil {
						gotH[id] = map[int]int64{}
					}
					gotH[id][n] += met.Value.Count
				} else {
					gotCtr[id] += met.Value.Count
				}
			case m3thrift.MetricType_GAUGE:
				// "last" by the reporter's own timestamp, not by arrival: loopback
				// datagrams can overtake each other between CPUs
				if met.Timestamp >= gotGTs[id] {
					gotGTs[id] = met.Timestamp
					gotGLast[id] = math.Float64bits(met.Value.Gauge)
				}
				gotGAll[id] = append(gotGAll[id], math.Float64bits(met.Value.Gauge))
			case m3thrift.MetricType_TIMER:
				if gotTimers[id] == nil {
					gotTimers[id] = map[int64]int{}
				}
				gotTimers[id][met.Value.Timer]++
			}
		}
	}
	for _, st := range states {
		for id, sum := range st.ctrSum {
			if gotCtr[id] != sum {
				bad("counter-sum", fmt.Sprintf("%s: decoded counter values add up to %d, increments to %d", id, gotCtr[id], sum))
			}
		}
		for id, last := range st.gLast {
			if gotGLast[id] != last {
				bad("gauge-last", fmt.Sprintf("%s: last emitted gauge bits %#x, last update %#x", id, gotGLast[id], last))
			}
			for _, b := range gotGAll[id] {
				if !st.gAll[id][b] {
					bad("gauge-invented", fmt.Sprintf("%s: emitted gauge bits %#x were never passed to Update", id, b))
					break
				}
			}
		}
		for id, tm := range st.timers {
			for v, n := range tm {
				if gotTimers[id][v] != n {
					bad("timer-multiset", fmt.Sprintf("%s: timer value %d recorded %d times, emitted %d times", id, v, n, gotTimers[id][v]))
					break
				}
			}
			for v, n := range gotTimers[id] {
				if tm[v] != n {
					bad("timer-multiset", fmt.Sprintf("%s: timer value %d emitted %d times, recorded %d times", id, v, n, tm[v]))
					break
				}
			}
		}
		for id, hc := range st.hCounts {
			for idx, n := range hc {
				if gotH[id][idx] != n {
					bad("histogram-bucket-sum", fmt.Sprintf("%s: bucket id %d: %d samples emitted, %d recorded (emitted per id: %v, recorded per index: %v)", id, idx, gotH[id][idx], n, gotH[id], hc))
					break
				}
			}
		}
	}
	c.Distinct(mon.Hash64(fmt.Sprint(desc), fmt.Sprint(r.U64())))
	if c.WantSample() {
		c.Sample(map[string]interface{}{"config": desc, "datagrams": len(msgs)})
	}
}

// c13BucketIDs: bucket ids increase with the bounds - as numbers and, since
// they travel as tag strings that backends sort and range over, as strings of
// one width - for histograms whose number of buckets sits on a power of ten.
func c13BucketIDs(c *mon.Ctx, r *mon.Rand, which int) {
	proto := m3.Compact
	if r.Bool() {
		proto = m3.Binary
	}
	n := []int{10000, 9, 10, 11, 99, 100, 101, 999, 1000, 1001, 9999, 10001}[which%12] // the batches of a run walk through the list
	env, err := newM3Env(1, m3.Options{Service: "svc", Env: "test", Protocol: proto, MaxQueueSize: 4096}, nil)
	if err != nil {
		c.Inconclusive("NewReporter: " + err.Error())
		return
	}
	c.Eval(1)
	desc := map[string]interface{}{"scenario": "bucket ids of a histogram with many bounds", "bounds": n, "protocol": protoName(proto)}
	stopWatch := c.Watchdog(300*time.Second, "m3-call-or-close-does-not-return", desc)
	defer stopWatch()
	spec := make([]float64, n)
	for i := range spec {
		spec[i] = float64(i + 1)
	}
	idxs := []int{0, 1, 2, n / 2, n - 2, n - 1, n} // n+1 buckets: 0..n
	c.Guard("panic-m3-producer", func() interface{} { return desc }, func() {
		h := env.Rep.AllocateHistogram("many", map[string]string{"k": "v"}, tally.ValueBuckets(spec))
		pairs := mon.RefPairsV(spec)
		for _, i := range idxs {
			h.ValueBucket(pairs[i].Lo, pairs[i].Hi).ReportSamples(int64(i + 1)) // the count names the bucket
		}
	})
	closeErr := env.Rep.Close()
	complete, why := env.finish()
	if closeErr != nil {
		c.Violation("close-error", map[string]interface{}{"why": closeErr.Error(), "case": desc})
	}
	if !complete {
		c.Inconclusive(why)
		return
	}
	msgs, _ := decodeAll(proto, env.Sinks[0].Datagrams())
	ids := map[int]string{}
	for _, m := range msgs {
		for _, met := range m.Batch.Metrics {
			if met.Name != "many" {
				continue
			}
			for _, t := range met.Tags {
				if t.Name == "bucketid" {
					ids[int(met.Value.Count)-1] = t.Value
				}
			}
		}
	}
	prev := -1
	for _, i := range idxs {
		id, ok := ids[i]
		if !ok {
			c.Violation("not-exactly-once", map[string]interface{}{"why": fmt.Sprintf("the sample reported on bucket %d never arrived", i), "case": desc})
			return
		}
		if prev >= 0 && i != prev {
			pid := ids[prev]
			a, _ := strconv.ParseInt(pid, 10, 64)
			b, _ := strconv.ParseInt(id, 10, 64)
			if b <= a || len(id) != len(pid) || !(id > pid) {
				c.Violation("bucket-ids-not-increasing", map[string]interface{}{"why": fmt.Sprintf("histogram with %d bounds: bucket %d has id %q, bucket %d has id %q (ids increase with the bounds, as numbers and as tag strings of one width)", n, prev, pid, i, id), "case": desc})
				return
			}
		}
		prev = i
	}
	c.Event("large-histograms-checked", 1)
	c.Distinct(mon.Hash64("bucket-ids", fmt.Sprint(n, proto)))
}

// c13FullPackets: the largest packet limit the transport allows (65,000 bytes)
// and thousands of samples on the buckets of one histogram whose range tags
// differ in length from bucket to bucket (the first ones long, the last one
// short): packets fill up to the limit. Every sample arrives exactly once.
func c13FullPackets(c *mon.Ctx, r *mon.Rand) {
	proto := m3.Compact
	if r.Bool() {
		proto = m3.Binary
	}
	env, err := newM3Env(1, m3.Options{Service: "svc", Env: "test", Protocol: proto, MaxQueueSize: 4096, MaxPacketSizeBytes: 65000}, nil)
	if err != nil {
		c.Inconclusive("NewReporter: " + err.Error())
		return
	}
	c.Eval(1)
	desc := map[string]interface{}{"scenario": "full packets under the largest limit", "protocol": protoName(proto)}
	stopWatch := c.Watchdog(300*time.Second, "m3-call-or-close-does-not-return", desc)
	defer stopWatch()
	base := time.Hour + time.Minute + time.Second
	isDur := r.Bool()
	per := r.Range(2500, 4500)
	var sent [3]int64
	c.Guard("panic-m3-producer", func() interface{} { return desc }, func() {
		var bk [3]tally.CachedHistogramBucket
		if isDur {
			h := env.Rep.AllocateHistogram("full", map[string]string{"k": "v"}, tally.DurationBuckets{base + 1, base + 2, base + 3, 2 * time.Hour})
			bk[0], bk[1], bk[2] = h.DurationBucket(base+1, base+2), h.DurationBucket(base+2, base+3), h.DurationBucket(2*time.Hour, time.Duration(math.MaxInt64))
		} else {
			h := env.Rep.AllocateHistogram("full", map[string]string{"k": "v"}, tally.ValueBuckets{123456.789012, 123456.789013, 123456.789014, 2})
			bk[0], bk[1], bk[2] = h.ValueBucket(123456.789012, 123456.789013), h.ValueBucket(123456.789013, 123456.789014), h.ValueBucket(123456.789014, math.MaxFloat64)
		}
		for i := 0; i < per; i++ {
			k := 0
			if i%16 == 15 {
				k = 1 + r.Intn(2)
			}
			bk[k].ReportSamples(1)
			sent[k]++
		}
	})
	closeErr := env.Rep.Close()
	complete, why := env.finish()
	if closeErr != nil {
		c.Violation("close-error", map[string]interface{}{"why": closeErr.Error(), "case": desc})
	}
	if !complete {
		c.Inconclusive(why)
		return
	}
	dgrams := env.Sinks[0].Datagrams()
	msgs, problems := decodeAll(proto, dgrams)
	for _, p := range problems {
		c.Violation("malformed-datagram", map[string]interface{}{"why": p, "case": desc})
		return
	}
	var got int64
	for _, m := range msgs {
		for _, met := range m.Batch.Metrics {
			if met.Name == "full" {
				got += met.Value.Count
			}
		}
	}
	maxLen := 0
	for _, d := range dgrams {
		if len(d) > maxLen {
			maxLen = len(d)
		}
	}
	if want := sent[0] + sent[1] + sent[2]; got != want {
		c.Violation("not-exactly-once", map[string]interface{}{"why": fmt.Sprintf("%d histogram samples were reported one by one (packet limit 65000, buckets with range tags of different lengths); %d arrived in %d datagrams, the largest of %d bytes", want, got, len(dgrams), maxLen), "case": desc})
	}
	c.Event("full-packet-samples", int64(per))
}
