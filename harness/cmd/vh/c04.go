package main

import (
	"fmt"
	"io"
	"strings"
	"sync"
	"time"

	tally "github.com/uber-go/tally/v4"

	"verifharness/mon"
)

func init() { register("C04", runC04) }

func runC04(c *mon.Ctx) {
	c.Cases(func(i int, r *mon.Rand) {
		c04Case(c, r)
		if i%4 == 0 {
			c04AliasLength(c, r.Fork(41))
		}
		if i%8 == 2 {
			c04ConcurrentSiblings(c, r.Fork(43))
		}
		if i%4 == 1 {
			invalidTwinsCase(c, r.Fork(42), "wrong-name-or-tags/invalid-bytes", false)
		}
	})
}

type c04Desc struct {
	Root    rootCfg `json:"root"`
	Prog    dprog   `json:"program"`
	Metric  string  `json:"metric"`
	Metric2 string  `json:"metric2"`
	Kind    string  `json:"reporter"`
}

type nameTags struct {
	name string
	tags map[string]string
}

func c04Case(c *mon.Ctx, r *mon.Rand) {
	withSan := r.Chance(1, 3)
	pool := newStrPool(r, true, true, true)
	rc := pool.root(r)
	if withSan {
		rc.San = genSanCfg(r)
	}
	prog := pool.prog(r, 6)
	ids, amb := rc.trace(prog)
	c.Eval(1)
	if amb {
		c.Class("skipped-two-input-keys-sanitize-to-one", 1)
		return
	}
	if collides(ids) {
		c.Class("skipped-delimiter-collision(D4)", 1)
		return
	}
	// half of the cases: a sibling chain with a slightly different identity (one
	// value or key changed, a level added, ...) is derived from the same root
	// FIRST, so that a lookup that confuses the two would hand the main chain the
	// sibling's scope
	var decoy dprog
	var decoyFinal ident
	if r.Bool() {
		d := mutateProg(r, prog, pool)
		dids, damb := rc.trace(d)
		// the registry also looks scopes up by the raw (unsanitized) spelling: the
		// known delimiter ambiguity (KF-C05-delim) must be excluded at that level too
		rawRC := rc
		rawRC.San = nil
		rawIDs, _ := rawRC.trace(prog)
		rawDIDs, _ := rawRC.trace(d)
		hasDelim := func(p dprog) bool {
			for _, st := range p {
				if strings.ContainsAny(st.Sub, ",=+") {
					return true
				}
				for k, v := range st.Tags {
					if strings.ContainsAny(k, ",=+") || strings.ContainsAny(v, ",=+") {
						return true
					}
				}
			}
			return false
		}
		// (the registry's raw key mixes the sanitized parent with the raw new tags,
		// so under a sanitizer any delimiter character in the raw strings of the
		// two chains may make them collide there: such pairs are left out)
		if !damb && !collides(append(append([]ident{}, ids...), dids...)) && !collides(append(append([]ident{}, rawIDs...), rawDIDs...)) &&
			!(withSan && (hasDelim(prog) || hasDelim(d) || strings.ContainsAny(rc.Prefix, ",=+"))) {
			decoy, decoyFinal = d, dids[len(dids)-1]
			c.Class("cases-with-a-sibling-chain-derived-first", 1)
		}
	}
	metric := pool.names[r.Intn(len(pool.names))]
	metric2 := pool.names[r.Intn(len(pool.names))] + "2"
	final := ids[len(ids)-1]
	rootID := ids[0]
	c.Distinct(mon.Hash64(fmt.Sprintf("%q %q %v %v %q", rc.Prefix, rc.Sep, rc.Tags, prog, metric), fmt.Sprint(rc.San)))
	if withSan {
		c.Class("with-sanitizer", 1)
	}
	// classes of interest
	retag := false
	seenKeys := map[string]string{}
	for k, v := range rootID.Tags {
		seenKeys[k] = v
	}
	for i, st := range prog {
		if st.IsTag {
			for k, v := range ids[i+1].Tags {
				if old, ok := seenKeys[k]; ok && old != v {
					retag = true
				}
				seenKeys[k] = v
			}
		}
	}
	if retag {
		c.Class("same-key-retagged-with-other-value", 1)
	}
	if rootID.Prefix == "" {
		c.Class("empty-root-prefix", 1)
	}
	c.Class(fmt.Sprintf("depth-%d", len(prog)), 1)

	for _, kind := range []string{"plain", "cached", "test"} {
		desc := c04Desc{Root: rc, Prog: prog, Metric: metric, Metric2: metric2, Kind: kind}
		if c.WantSample() && kind == "plain" {
			c.Sample(map[string]interface{}{"case": desc, "expected_name": rc.metricName(final, metric), "expected_tags": final.Tags})
		}
		bad := func(sig, why string) {
			c.Violation(sig+"/"+kind, map[string]interface{}{"why": why, "case": desc, "expected_final_identity": final})
		}
		// maps handed to the API, with pristine copies
		rootTagsArg := copyTagMap(rc.Tags)
		progArg := prog.clone()
		checkArgs := func(where string) {
			if !mon.TagsEqual(rootTagsArg, rc.Tags) && !(rc.Tags == nil && len(rootTagsArg) == 0) {
				bad("caller-map-mutated", fmt.Sprintf("root tags map changed by the library (%s): %v -> %v", where, rc.Tags, rootTagsArg))
			}
			for i := range prog {
				if prog[i].IsTag && !mon.TagsEqual(progArg[i].Tags, prog[i].Tags) {
					bad("caller-map-mutated", fmt.Sprintf("Tagged map of step %d changed by the library (%s): %v -> %v", i, where, prog[i].Tags, progArg[i].Tags))
				}
			}
		}
		opts := tally.ScopeOptions{Prefix: rc.Prefix, Separator: rc.Sep, Tags: rootTagsArg, SanitizeOptions: rc.San.opts(), OmitCardinalityMetrics: true}
		var prec *mon.PlainRec
		var crec *mon.CachedRec
		var root tally.Scope
		var ts tally.TestScope
		panicked := c.Guard("panic/"+kind, func() interface{} { return desc }, func() {
			switch kind {
			case "plain":
				prec = mon.NewPlainRec(true)
				opts.Reporter = prec
				root, _ = vNewRoot(opts, 0, uint(r.Range(0, 5)))
			case "cached":
				crec = mon.NewCachedRec(true)
				opts.CachedReporter = crec
				root, _ = vNewRoot(opts, 0, uint(r.Range(0, 5)))
			case "test":
				if rc.San != nil || (rc.Sep != "" && rc.Sep != ".") {
					root = nil // NewTestScope has neither option
					return
				}
				ts = tally.NewTestScope(rc.Prefix, rootTagsArg)
				root = ts
			}
		})
		if panicked || root == nil {
			continue
		}
		var scopes, decoyScopes []tally.Scope
		if c.Guard("panic/"+kind, func() interface{} { return desc }, func() {
			if decoy != nil {
				decoyScopes = decoy.clone().apply(root)
			}
			scopes = progArg.apply(root)
		}) {
			continue
		}
		checkArgs("after derivation")
		fin := scopes[len(scopes)-1]

		expect := map[string]nameTags{} // kind letter+round -> expected
		use := func(s tally.Scope, id ident, m string, round int) {
			n := rc.metricName(id, m)
			s.Counter(m).Inc(int64(3 + round))
			s.Gauge(m).Update(float64(7 + round))
			s.Timer(m).Record(time.Duration(11 + round))
			s.Histogram(m, tally.ValueBuckets{1, 2}).RecordValue(1.5)
			expect[fmt.Sprintf("%s|%d", id.key(), round)] = nameTags{n, id.Tags}
		}
		if c.Guard("panic/"+kind, func() interface{} { return desc }, func() {
			use(fin, final, metric, 1)
			use(root, rootID, metric, 1)
			if decoyScopes != nil {
				use(decoyScopes[len(decoyScopes)-1], decoyFinal, metric, 5)
			}
			if ts == nil {
				tally.VerifReportPass(root)
			}
		}) {
			continue
		}
		checkArgs("after first use")
		// a test scope's snapshot hands out copies: whatever a consumer does to the
		// tag maps of its entries, the scopes keep their tags
		if ts != nil {
			snap := ts.Snapshot()
			vandal := func(m map[string]string) {
				for k := range m {
					m[k] = "SCRUBBED-IN-A-SNAPSHOT"
				}
				m["added-to-a-snapshot"] = "x"
			}
			for _, x := range snap.Counters() {
				vandal(x.Tags())
			}
			for _, x := range snap.Gauges() {
				vandal(x.Tags())
			}
			for _, x := range snap.Timers() {
				vandal(x.Tags())
			}
			for _, x := range snap.Histograms() {
				vandal(x.Tags())
			}
		}
		// the harness now vandalises the maps it handed in
		for k := range rootTagsArg {
			rootTagsArg[k] = "MUTATED"
		}
		rootTagsArg["added-by-harness"] = "x"
		for i := range progArg {
			if progArg[i].IsTag {
				for k := range progArg[i].Tags {
					if r.Bool() {
						progArg[i].Tags[k] = "MUTATED"
					} else {
						delete(progArg[i].Tags, k)
					}
				}
				progArg[i].Tags["added-by-harness"] = "y"
			}
		}
		if c.Guard("panic/"+kind, func() interface{} { return desc }, func() {
			use(fin, final, metric, 2)  // same metrics again
			use(fin, final, metric2, 3) // new metrics: a cached reporter sees the scope's tags again
			use(root, rootID, metric2, 3)
			if ts == nil {
				tally.VerifReportPass(root)
			}
			// half of the runs: close the derived scope and derive it again from
			// pristine arguments (the registry's re-acquire paths): same name, same tags
			if ts == nil && fin != root && r.Bool() {
				if cl, ok := fin.(io.Closer); ok {
					cl.Close()
				}
				if r.Bool() {
					tally.VerifReportPass(root)
				}
				sc2 := prog.clone().apply(root)
				use(sc2[len(sc2)-1], final, metric, 4)
				tally.VerifReportPass(root)
				c.Class("runs-with-close-and-derive-again", 1)
			}
		}) {
			continue
		}

		// every observed (name, tags) must be one of the expected ones
		type obs struct {
			kind string
			nt   nameTags
		}
		var seen []obs
		switch kind {
		case "plain", "cached":
			var log []mon.Event
			if prec != nil {
				log, _, _ = prec.Snapshot()
			} else {
				log, _, _ = crec.Snapshot()
			}
			for _, ev := range log {
				switch ev.Kind {
				case mon.EvCounter, mon.EvGauge, mon.EvTimer, mon.EvHistV, mon.EvHistD, mon.EvAllocCounter, mon.EvAllocGauge, mon.EvAllocTimer, mon.EvAllocHist:
					seen = append(seen, obs{ev.Kind.String(), nameTags{ev.Name, ev.Tags}})
					c.Event("reporter-calls-checked", 1)
				}
			}
		case "test":
			snap := ts.Snapshot()
			for _, x := range snap.Counters() {
				seen = append(seen, obs{"counter", nameTags{x.Name(), x.Tags()}})
			}
			for _, x := range snap.Gauges() {
				seen = append(seen, obs{"gauge", nameTags{x.Name(), x.Tags()}})
			}
			for _, x := range snap.Timers() {
				seen = append(seen, obs{"timer", nameTags{x.Name(), x.Tags()}})
			}
			for _, x := range snap.Histograms() {
				seen = append(seen, obs{"histv", nameTags{x.Name(), x.Tags()}})
			}
			c.Event("snapshot-entries-checked", int64(len(seen)))
		}
		found := map[string]bool{}
		for _, o := range seen {
			ok := false
			for ek, e := range expect {
				if o.nt.name == e.name && mon.TagsEqual(o.nt.tags, e.tags) {
					ok = true
					found[ek+"|"+o.kind] = true
				}
			}
			if !ok {
				bad("wrong-name-or-tags", fmt.Sprintf("%s delivered as name=%q tags=%v; expected one of %v", o.kind, o.nt.name, o.nt.tags, expectList(expect)))
				break
			}
		}
		kinds := []string{"counter", "gauge", "timer", "histv"}
		for ek := range expect {
			for _, k := range kinds {
				if !found[ek+"|"+k] {
					// an expectation may be shadowed when two of them have equal (name,tags)
					e := expect[ek]
					dupOK := false
					for ek2, e2 := range expect {
						if ek2 != ek && e2.name == e.name && mon.TagsEqual(e2.tags, e.tags) && found[ek2+"|"+k] {
							dupOK = true
						}
					}
					if !dupOK {
						bad("missing-delivery", fmt.Sprintf("no %s seen under name=%q tags=%v; sibling chain derived first: %v; observed: %v", k, e.name, e.tags, decoy, seen))
					}
				}
			}
		}
	}
}

// c04AliasLength: under a sanitizer that changes the byte length of a tag
// value, the scope is registered under its raw and its sanitized spelling. A
// later derivation whose raw spelling is "sanitized value + the last bytes of
// the earlier raw value" (what a registry alias built in a reused, not
// re-sliced buffer would read) has an identity of its own.
func c04AliasLength(c *mon.Ctx, r *mon.Rand) {
	aliasLengthCase(c, r, "wrong-name-or-tags/alias", false)
}

// aliasLengthCase is shared with C05 (checkPtr: the two derivations are also
// two scope objects).
func aliasLengthCase(c *mon.Ctx, r *mon.Rand, sig string, checkPtr bool) {
	so := tally.SanitizeOptions{
		NameCharacters:       tally.ValidCharacters{Ranges: tally.AlphanumericRange, Characters: tally.UnderscoreDashDotCharacters},
		KeyCharacters:        tally.ValidCharacters{Ranges: tally.AlphanumericRange, Characters: tally.UnderscoreCharacters},
		ValueCharacters:      tally.ValidCharacters{Ranges: tally.AlphanumericRange, Characters: tally.UnderscoreCharacters},
		ReplacementCharacter: '_',
	}
	multi := []string{"é", "ü", "€", "\xf0\x9f\x98\x80", "日本"}
	v := ""
	for i, n := 0, r.Range(1, 3); i < n; i++ {
		v += multi[r.Intn(len(multi))]
		if r.Bool() {
			v += r.Ident(2)
		}
	}
	v += r.Ident(4) + "wxyz0123" // an alphanumeric tail longer than any length difference considered
	sv := mon.RefSanitize(mon.RefValid{Ranges: [][2]rune{{'a', 'z'}, {'A', 'Z'}, {'0', '9'}}, Chars: []rune{'_'}}, '_', v)
	d := len(v) - len(sv)
	if d <= 0 || d > 8 {
		return
	}
	late := sv + v[len(v)-d:]
	cached := r.Bool()
	opts := tally.ScopeOptions{SanitizeOptions: &so, OmitCardinalityMetrics: true, Prefix: r.Pick("", "svc")}
	var rec *mon.Recorder
	if cached {
		cr := mon.NewCachedRec(false)
		rec, opts.CachedReporter = cr.Recorder, cr
	} else {
		pr := mon.NewPlainRec(false)
		rec, opts.Reporter = pr.Recorder, pr
	}
	root, _ := vNewRoot(opts, 0, 1)
	key := r.Pick("a", "zz", "k_1")
	c.Eval(1)
	desc := map[string]interface{}{"first_raw_value": v, "first_sanitized": sv, "second_raw_value": late, "key": key, "cached": cached, "prefix": opts.Prefix}
	c.Guard("panic/alias", func() interface{} { return desc }, func() {
		s1 := root.Tagged(map[string]string{key: v})
		s1.Counter("m").Inc(1)
		s2 := root.Tagged(map[string]string{key: late})
		s2.Counter("m").Inc(2)
		if checkPtr && s1 == s2 {
			c.Violation("different-identity-same-scope/alias", map[string]interface{}{"why": fmt.Sprintf("Tagged({%s:%q}) returned the scope of Tagged({%s:%q}), whose tags are {%s:%s}", key, late, key, v, key, sv), "case": desc})
		}
		tally.VerifReportPass(root)
	})
	_, agg, _ := rec.Snapshot()
	name := mon.RefName(opts.Prefix, ".", "m")
	if got := agg[mon.IdentKey(name, map[string]string{key: sv})].Sum; got != 1 {
		c.Violation(sig, map[string]interface{}{"why": fmt.Sprintf("counter of the first derivation: %d delivered under tags {%s:%s}, 1 recorded", got, key, sv), "case": desc})
	}
	if got := agg[mon.IdentKey(name, map[string]string{key: late})].Sum; got != 2 {
		c.Violation(sig, map[string]interface{}{"why": fmt.Sprintf("counter of the second derivation: %d delivered under tags {%s:%s}, 2 recorded", got, key, late), "case": desc})
	}
	c.Event("length-changing-sanitizations", 1)
}

func expectList(m map[string]nameTags) []string {
	var out []string
	for _, e := range m {
		out = append(out, fmt.Sprintf("%q%v", e.name, e.tags))
	}
	return out
}

// invalidTwinsCase: two derivations that differ only in bytes that are not
// valid UTF-8 (tag value, tag key or subscope name ending in 0xff / 0xfe / a
// lone continuation byte). Without sanitize options strings are passed through
// byte for byte, so these are two identities: two scopes (checkPtr, C05), each
// delivering under its own name and tags (C04).
func invalidTwinsCase(c *mon.Ctx, r *mon.Rand, sig string, checkPtr bool) {
	bads := []string{"\xff", "\xfe", "\xc0", "\x80", "\xf5"}
	i := r.Intn(len(bads))
	j := (i + 1 + r.Intn(len(bads)-1)) % len(bads)
	base := r.Ident(4)
	if r.Bool() {
		base += "é"
	}
	a, b := base+bads[i], base+bads[j]
	if r.Bool() {
		a, b = bads[i]+base, bads[j]+base
	}
	where := r.Intn(3) // 0 value, 1 key, 2 subscope name
	cached := r.Bool()
	opts := tally.ScopeOptions{OmitCardinalityMetrics: true, Prefix: r.Pick("", "svc")}
	var rec *mon.Recorder
	if cached {
		cr := mon.NewCachedRec(false)
		rec, opts.CachedReporter = cr.Recorder, cr
	} else {
		pr := mon.NewPlainRec(false)
		rec, opts.Reporter = pr.Recorder, pr
	}
	root, _ := vNewRoot(opts, 0, uint(r.Range(0, 3)))
	c.Eval(1)
	desc := map[string]interface{}{"first": a, "second": b, "differ_in": []string{"tag value", "tag key", "subscope name"}[where], "cached": cached, "prefix": opts.Prefix}
	derive := func(x string) (tally.Scope, string, map[string]string) {
		switch where {
		case 0:
			return root.Tagged(map[string]string{"k": x}), mon.RefName(opts.Prefix, ".", "m"), map[string]string{"k": x}
		case 1:
			return root.Tagged(map[string]string{x: "v"}), mon.RefName(opts.Prefix, ".", "m"), map[string]string{x: "v"}
		}
		return root.SubScope(x), mon.RefName(opts.Prefix, ".", x, "m"), nil
	}
	var n1, n2 string
	var t1, t2 map[string]string
	c.Guard("panic/invalid-twins", func() interface{} { return desc }, func() {
		var s1, s2 tally.Scope
		s1, n1, t1 = derive(a)
		s1.Counter("m").Inc(1)
		s2, n2, t2 = derive(b)
		s2.Counter("m").Inc(2)
		if checkPtr && s1 == s2 {
			c.Violation("different-identity-same-scope/invalid-bytes", map[string]interface{}{"why": fmt.Sprintf("the derivations through %q and %q returned one scope object", a, b), "case": desc})
		}
		tally.VerifReportPass(root)
	})
	_, agg, _ := rec.Snapshot()
	if got := agg[mon.IdentKey(n1, t1)].Sum; got != 1 {
		c.Violation(sig, map[string]interface{}{"why": fmt.Sprintf("counter of the first derivation: %d delivered under name %q tags %q, 1 recorded", got, n1, t1), "case": desc})
	}
	if got := agg[mon.IdentKey(n2, t2)].Sum; got != 2 {
		c.Violation(sig, map[string]interface{}{"why": fmt.Sprintf("counter of the second derivation: %d delivered under name %q tags %q, 2 recorded", got, n2, t2), "case": desc})
	}
	c.Event("invalid-byte-twins", 1)
}

// c04ConcurrentSiblings: several goroutines keep asking ONE parent (the root
// in a third of the runs, else a derived scope with tags of its own) for
// children with different tag maps, each goroutine for its own two maps in
// turn, and add 1 to a counter of what they are handed. Whatever the
// interleaving, what arrives for each (parent tags overlaid by the map given)
// is exactly what was added under it: nobody is handed a sibling.
func c04ConcurrentSiblings(c *mon.Ctx, r *mon.Rand) {
	pr := mon.NewPlainRec(false)
	root, _ := vNewRoot(tally.ScopeOptions{Reporter: pr, OmitCardinalityMetrics: true, Tags: map[string]string{"rt": "x"}}, 0, uint(r.Range(0, 4)))
	parent, ptags, pname := root, map[string]string{"rt": "x"}, "c"
	switch r.Intn(3) {
	case 1:
		parent, ptags = root.Tagged(map[string]string{"pk": "pv"}), map[string]string{"rt": "x", "pk": "pv"}
	case 2:
		parent, ptags, pname = root.SubScope("p").Tagged(map[string]string{"pk": "pv", "rt": "y"}), map[string]string{"rt": "y", "pk": "pv"}, "p.c"
	}
	G := r.Range(2, 8)
	iters := r.Range(500, 3000)
	var wg sync.WaitGroup
	start := make(chan struct{})
	for g := 0; g < G; g++ {
		wg.Add(1)
		go func(g int) {
			defer wg.Done()
			a := map[string]string{"g": fmt.Sprint(g), "v": "a"}
			b := map[string]string{"g": fmt.Sprint(g), "v": "b", "pk": "over"}
			<-start
			for i := 0; i < iters; i++ {
				parent.Tagged(a).Counter("c").Inc(1)
				if i%3 == 0 {
					parent.Tagged(b).Counter("c").Inc(1)
				}
			}
		}(g)
	}
	close(start)
	wg.Wait()
	tally.VerifReportPass(root)
	_, agg, _ := pr.Snapshot()
	desc := map[string]interface{}{"goroutines": G, "iterations": iters, "parent_tags": ptags, "counter": pname}
	for g := 0; g < G; g++ {
		wa := mon.RefOverlay(ptags, map[string]string{"g": fmt.Sprint(g), "v": "a"})
		wb := mon.RefOverlay(ptags, map[string]string{"g": fmt.Sprint(g), "v": "b", "pk": "over"})
		if got := agg[mon.IdentKey(pname, wa)].Sum; got != int64(iters) {
			c.Violation("wrong-name-or-tags/concurrent-siblings", map[string]interface{}{"why": fmt.Sprintf("counter %s with tags %v: delivered %d, goroutine %d added %d through the scopes it was handed for exactly these tags", pname, wa, got, g, iters), "case": desc})
			break
		}
		if got, want := agg[mon.IdentKey(pname, wb)].Sum, int64((iters+2)/3); got != want {
			c.Violation("wrong-name-or-tags/concurrent-siblings", map[string]interface{}{"why": fmt.Sprintf("counter %s with tags %v: delivered %d, goroutine %d added %d through the scopes it was handed for exactly these tags", pname, wb, got, g, want), "case": desc})
			break
		}
	}
	c.Event("concurrent-sibling-derivations", int64(G*iters))
	c.Eval(1)
}
