package main

import (
	"fmt"
	"io"
	"math"
	"strings"
	"sync"
	"time"

	prom "github.com/prometheus/client_golang/prometheus"
	tally "github.com/uber-go/tally/v4"
	"github.com/uber-go/tally/v4/m3"
	tprom "github.com/uber-go/tally/v4/prometheus"

	"verifharness/mon"
)

func init() { register("C20", runC20) }

func runC20(c *mon.Ctx) {
	c.Cases(func(i int, r *mon.Rand) {
		c20Constructors(c, r.Fork(1))
		c20NoMutation(c, r.Fork(2))
		c20NoMutationCustom(c, r.Fork(22))
		if i%3 == 0 {
			c20NoMutationReporters(c, r.Fork(23))
		}
		if i%3 == 2 {
			c20Defaults(c, r.Fork(25))
		}
		if i%3 == 1 {
			// a histogram keeps the bounds it was given also as seen behind the
			// Prometheus reporter (value and duration specifications, samples on the
			// bounds): C17's histories, histogram evidence only
			promKinds = map[string]bool{"histogram": true}
			c17Values(c, r.Fork(24))
			promKinds = nil
		}
		c20Isolation(c, r.Fork(3))
		if i%4 == 2 {
			c20M3Probe(c, r.Fork(25))
		}
		// fresh roots on which several goroutines make the first use of colliding
		// bucket sets at the same moment (all of them miss the empty cache together)
		c09BucketRace(c, r.Fork(4), 4)
	})
}

func panics(f func()) (p bool) {
	defer func() {
		if recover() != nil {
			p = true
		}
	}()
	f()
	return false
}

func c20GenN(r *mon.Rand) int {
	switch r.Intn(8) {
	case 0:
		return 0
	case 1:
		return -r.Range(1, 5)
	case 2:
		return 1
	default:
		return r.Range(1, 40)
	}
}

func c20Constructors(c *mon.Ctx, r *mon.Rand) {
	for k := 0; k < 6; k++ {
		n := c20GenN(r)
		c.Eval(1)
		switch r.Intn(4) {
		case 0: // linear values
			start, width := r.FiniteFloat(), r.FiniteFloat()
			if math.Abs(start) > 1e15 {
				start = float64(r.Range(-5, 5))
			}
			if math.Abs(width) > 1e15 {
				width = float64(r.Range(-5, 5)) / 4
			}
			args := fmt.Sprintf("LinearValueBuckets(%v,%v,%d)", start, width, n)
			b, err := tally.LinearValueBuckets(start, width, n)
			wantErr := n <= 0
			c20CheckErr(c, args, err, wantErr)
			mp := panics(func() { tally.MustMakeLinearValueBuckets(start, width, n) })
			if mp != wantErr {
				c.Violation("must-panic-mismatch", args+fmt.Sprintf(": Must variant panicked=%v, error expected=%v", mp, wantErr))
			}
			if err == nil && !wantErr {
				c.Distinct(mon.Hash64(args))
				if len(b) != n {
					c.Violation("constructor-length", args+fmt.Sprintf(": len %d", len(b)))
					continue
				}
				for i := range b {
					var ok bool
					if i == 0 {
						ok = feq(b[0], start)
					} else {
						ok = feq(b[i], b[i-1]+width) || feq(b[i], start+float64(i)*width)
					}
					if !ok {
						c.Violation("constructor-recurrence", args+fmt.Sprintf(": element %d = %v, previous %v", i, b[i], prevF(b, i)))
						break
					}
				}
			}
		case 1: // linear durations
			start, width := r.AnyDuration(), r.AnyDuration()
			if r.Bool() {
				start = time.Duration(r.Range(-1000, 100000)) * time.Microsecond
				width = time.Duration(r.Range(-100, 5000)) * time.Microsecond
			}
			args := fmt.Sprintf("LinearDurationBuckets(%d,%d,%d)", start, width, n)
			b, err := tally.LinearDurationBuckets(start, width, n)
			wantErr := n <= 0
			c20CheckErr(c, args, err, wantErr)
			mp := panics(func() { tally.MustMakeLinearDurationBuckets(start, width, n) })
			if mp != wantErr {
				c.Violation("must-panic-mismatch", args+fmt.Sprintf(": Must variant panicked=%v, error expected=%v", mp, wantErr))
			}
			if err == nil && !wantErr {
				c.Distinct(mon.Hash64(args))
				if len(b) != n {
					c.Violation("constructor-length", args+fmt.Sprintf(": len %d", len(b)))
					continue
				}
				for i := range b {
					want := start + time.Duration(i)*width // exact (wrapping) arithmetic
					if b[i] != want {
						c.Violation("constructor-recurrence", args+fmt.Sprintf(": element %d = %d, want %d", i, b[i], want))
						break
					}
				}
			}
		case 2: // exponential values
			start := []float64{0, -1, 1, 0.001, 2, 1e-300, 1e300, 0.5, 3}[r.Intn(9)]
			if r.Bool() {
				start = math.Abs(r.FiniteFloat())
				if r.Chance(1, 8) {
					start = -start
				}
			}
			factor := []float64{0.5, 1, 1.0000000000000002, 1.5, 2, 10, -2, 0, 0.9999999999999999, 1.1}[r.Intn(10)]
			if r.Bool() {
				factor = 1 + r.Float()*3
			}
			args := fmt.Sprintf("ExponentialValueBuckets(%v,%v,%d)", start, factor, n)
			b, err := tally.ExponentialValueBuckets(start, factor, n)
			wantErr := n <= 0 || start <= 0 || factor <= 1
			c20CheckErr(c, args, err, wantErr)
			mp := panics(func() { tally.MustMakeExponentialValueBuckets(start, factor, n) })
			if mp != wantErr {
				c.Violation("must-panic-mismatch", args+fmt.Sprintf(": Must variant panicked=%v, error expected=%v", mp, wantErr))
			}
			if err == nil && !wantErr {
				c.Distinct(mon.Hash64(args))
				if len(b) != n {
					c.Violation("constructor-length", args+fmt.Sprintf(": len %d", len(b)))
					continue
				}
				for i := range b {
					var ok bool
					if i == 0 {
						ok = feq(b[0], start)
					} else {
						ok = feq(b[i], b[i-1]*factor) // the stated recurrence: previous times factor (the library evaluates it this way; only the linear constructors use a closed form)
					}
					if !ok {
						c.Violation("constructor-recurrence", args+fmt.Sprintf(": element %d = %v, previous %v", i, b[i], prevF(b, i)))
						break
					}
				}
			}
		case 3: // exponential durations
			start := []time.Duration{0, -1, 1, time.Millisecond, time.Second, 7, -time.Second}[r.Intn(7)]
			if r.Bool() {
				start = time.Duration(r.Range(1, 1000000)) * time.Microsecond
			}
			factor := []float64{0.5, 1, 1.0000000000000002, 1.5, 2, 10, -2, 0, 1.1}[r.Intn(9)]
			if r.Bool() {
				factor = 1 + r.Float()*3
			}
			// keep the last element well inside int64 (float->int conversion of
			// out-of-range values is implementation-defined, out of the claim)
			for n > 1 && start > 0 && factor > 1 && float64(start)*math.Pow(factor, float64(n)) > 4e18 {
				n--
			}
			args := fmt.Sprintf("ExponentialDurationBuckets(%d,%v,%d)", start, factor, n)
			b, err := tally.ExponentialDurationBuckets(start, factor, n)
			wantErr := n <= 0 || start <= 0 || factor <= 1
			c20CheckErr(c, args, err, wantErr)
			mp := panics(func() { tally.MustMakeExponentialDurationBuckets(start, factor, n) })
			if mp != wantErr {
				c.Violation("must-panic-mismatch", args+fmt.Sprintf(": Must variant panicked=%v, error expected=%v", mp, wantErr))
			}
			if err == nil && !wantErr {
				c.Distinct(mon.Hash64(args))
				if len(b) != n {
					c.Violation("constructor-length", args+fmt.Sprintf(": len %d", len(b)))
					continue
				}
				for i := range b {
					var ok bool
					if i == 0 {
						ok = b[0] == start
					} else {
						ok = b[i] == time.Duration(float64(b[i-1])*factor)
					}
					if !ok {
						c.Violation("constructor-recurrence", args+fmt.Sprintf(": element %d = %d", i, b[i]))
						break
					}
				}
			}
		}
	}
}

func feq(a, b float64) bool { return a == b || (math.IsNaN(a) && math.IsNaN(b)) }
func prevF(b []float64, i int) float64 {
	if i == 0 {
		return math.NaN()
	}
	return b[i-1]
}

func c20CheckErr(c *mon.Ctx, args string, err error, want bool) {
	if (err != nil) != want {
		c.Violation("constructor-error-mismatch", fmt.Sprintf("%s: err=%v, error expected=%v", args, err, want))
	}
	if want {
		c.Class("constructor-error-cases", 1)
	} else {
		c.Class("constructor-ok-cases", 1)
	}
}

func c20NoMutation(c *mon.Ctx, r *mon.Rand) {
	c.Eval(1)
	if r.Bool() {
		spec := r.ValueSpec(32)
		orig := append([]float64(nil), spec...)
		pairs := tally.BucketPairs(tally.ValueBuckets(spec))
		if !sameBitsV(spec, orig) {
			c.Violation("caller-slice-modified", fmt.Sprintf("BucketPairs changed the caller's slice: before %v after %v", orig, spec))
		}
		ref := mon.RefPairsV(orig)
		if len(pairs) != len(ref) {
			c.Violation("bucketpairs-differ", fmt.Sprintf("BucketPairs(%v) has %d pairs, reference %d", orig, len(pairs), len(ref)))
			return
		}
		for i := range ref {
			if pairs[i].LowerBoundValue() != ref[i].Lo || pairs[i].UpperBoundValue() != ref[i].Hi {
				c.Violation("bucketpairs-differ", fmt.Sprintf("BucketPairs(%v)[%d] = (%v,%v], reference (%v,%v]", orig, i, pairs[i].LowerBoundValue(), pairs[i].UpperBoundValue(), ref[i].Lo, ref[i].Hi))
				return
			}
		}
		// Histogram() must not touch it either
		root := tally.NewTestScope("", nil)
		root.Histogram("h", tally.ValueBuckets(spec)).RecordValue(1)
		if !sameBitsV(spec, orig) {
			c.Violation("caller-slice-modified", fmt.Sprintf("Histogram() changed the caller's slice: before %v after %v", orig, spec))
		}
	} else {
		spec := r.DurationSpec(32)
		orig := append([]time.Duration(nil), spec...)
		pairs := tally.BucketPairs(tally.DurationBuckets(spec))
		if fmt.Sprint(spec) != fmt.Sprint(orig) {
			c.Violation("caller-slice-modified", fmt.Sprintf("BucketPairs changed the caller's slice: before %v after %v", orig, spec))
		}
		ref := mon.RefPairsD(orig)
		if len(pairs) != len(ref) {
			c.Violation("bucketpairs-differ", fmt.Sprintf("BucketPairs(%v) has %d pairs, reference %d", orig, len(pairs), len(ref)))
			return
		}
		for i := range ref {
			if pairs[i].LowerBoundDuration() != ref[i].Lo || pairs[i].UpperBoundDuration() != ref[i].Hi {
				c.Violation("bucketpairs-differ", fmt.Sprintf("BucketPairs(%v)[%d] = (%d,%d], reference (%d,%d]", orig, i, pairs[i].LowerBoundDuration(), pairs[i].UpperBoundDuration(), ref[i].Lo, ref[i].Hi))
				return
			}
		}
		root := tally.NewTestScope("", nil)
		root.Histogram("h", tally.DurationBuckets(spec)).RecordDuration(1)
		if fmt.Sprint(spec) != fmt.Sprint(orig) {
			c.Violation("caller-slice-modified", fmt.Sprintf("Histogram() changed the caller's slice: before %v after %v", orig, spec))
		}
	}
}

// c20NoMutationCustom: deriving pairs from a caller-defined Buckets value must
// not reorder the caller's object either.
func c20NoMutationCustom(c *mon.Ctx, r *mon.Rand) {
	spec := r.ValueSpec(8)
	for len(spec) < 3 {
		spec = append(spec, r.FiniteFloat())
	}
	u := c20Units(append([]float64(nil), spec...))
	func() {
		defer func() { recover() }() // a library that refuses such types is none of C20's business
		tally.BucketPairs(u)
	}()
	if !sameBitsV([]float64(u), spec) {
		c.Violation("caller-slice-modified", fmt.Sprintf("BucketPairs changed a caller-defined Buckets value: before %v after %v", spec, []float64(u)))
	}
}

func sameBitsV(a, b []float64) bool {
	if len(a) != len(b) {
		return false
	}
	for i := range a {
		if math.Float64bits(a[i]) != math.Float64bits(b[i]) {
			return false
		}
	}
	return true
}

// c20Family builds a family of bucket sets that collide in the bucket cache
// (identity = seed + sum of 31*element): permutations, sets with equal sums
// of bit patterns, duration sets with equal sums, a value and a duration set
// with equal identity.
type c20Set struct {
	IsDur bool
	V     []float64
	D     []time.Duration
	Why   string
}

func c20Family(r *mon.Rand) []c20Set {
	var fam []c20Set
	switch r.Intn(8) {
	case 7: // a set of distinct bounds, then one of the same length made of repetitions of one of them with the same bit-pattern sum ({m/2,m,2m} and {m,m,m})
		if r.Bool() {
			m := float64(r.Range(1, 400)) / 4
			k := float64(uint(1) << uint(r.Range(1, 3)))
			fam = append(fam, c20Set{V: []float64{m / k, m, m * k}, Why: "distinct bounds m/k, m, m*k"}, c20Set{V: []float64{m, m, m}, Why: "the middle bound three times (equal bit-pattern sum, every bound is one of the other set's)"})
		} else {
			m := time.Duration(r.Range(1000, 5000000))
			d := time.Duration(r.Range(1, 999))
			fam = append(fam, c20Set{IsDur: true, D: []time.Duration{m - d, m, m + d}, Why: "distinct bounds m-d, m, m+d"}, c20Set{IsDur: true, D: []time.Duration{m, m, m}, Why: "the middle bound three times (equal sum, every bound is one of the other set's)"})
		}
		if r.Chance(1, 4) {
			fam[0], fam[1] = fam[1], fam[0]
		}
	case 6: // a value set and a duration set with equal identity whose elements also convert to each other (0 is 0s, -x and x cancel)
		var v []float64
		var d []time.Duration
		for k := r.Range(0, 2); k > 0; k-- {
			x := float64(r.Range(1, 64)) / 4
			v = append(v, -x, x)
			d = append(d, -time.Duration(x*float64(time.Second)), time.Duration(x*float64(time.Second)))
		}
		for k := r.Range(0, 2); k > 0 || len(v) == 0; k-- {
			at := r.Intn(len(v) + 1)
			v = append(v[:at], append([]float64{0}, v[at:]...)...)
			d = append(d[:at], append([]time.Duration{0}, d[at:]...)...)
		}
		fam = append(fam, c20Set{V: v, Why: "value set whose bit patterns add up to 0"}, c20Set{IsDur: true, D: d, Why: "the same bounds as durations (equal identity, equal converted elements, other kind)"})
		if r.Bool() {
			fam[0], fam[1] = fam[1], fam[0]
		}
	case 5: // two value sets a few ulps apart whose bit patterns add up to the same sum: one bound one ulp up, another one ulp down
		n := r.Range(2, 6)
		base := make([]float64, n)
		for i := range base {
			base[i] = float64(r.Range(1, 1000)) / []float64{1, 3, 7, 10}[r.Intn(4)]
		}
		near := append([]float64(nil), base...)
		i, j := 0, 1+r.Intn(n-1)
		k := uint64(r.Range(1, 3))
		near[i] = math.Float64frombits(math.Float64bits(near[i]) + k)
		near[j] = math.Float64frombits(math.Float64bits(near[j]) - k)
		fam = append(fam, c20Set{V: base, Why: "base"}, c20Set{V: near, Why: "one bound a few ulps up, another the same number of ulps down (equal bit-pattern sums)"})
		if r.Bool() {
			fam[0], fam[1] = fam[1], fam[0]
		}
	case 4: // a set and the same set extended by bounds that add nothing to the additive identity
		if r.Bool() {
			base := r.ValueSpec(5)
			for len(base) < 2 {
				base = append(base, r.FiniteFloat())
			}
			long := append(append([]float64(nil), base...), 0)
			fam = append(fam, c20Set{V: long, Why: "base extended by a bound 0 (adds nothing to the identity)"}, c20Set{V: base, Why: "prefix of the longer set"})
		} else {
			base := r.DurationSpec(5)
			for len(base) < 2 {
				base = append(base, r.AnyDuration())
			}
			d := time.Duration(r.Range(1, 1000000))
			long := append(append([]time.Duration(nil), base...), d, -d)
			fam = append(fam, c20Set{IsDur: true, D: long, Why: "base extended by d and -d (adds nothing to the identity)"}, c20Set{IsDur: true, D: base, Why: "prefix of the longer set"})
		}
	case 0: // permutations of one value set (+ a duration twin with the same bit patterns)
		base := r.ValueSpec(8)
		for len(base) < 2 {
			base = append(base, r.FiniteFloat())
		}
		fam = append(fam, c20Set{V: base, Why: "base"})
		for k := 0; k < r.Range(1, 4); k++ {
			p := r.Perm(len(base))
			v := make([]float64, len(base))
			for i, j := range p {
				v[i] = base[j]
			}
			fam = append(fam, c20Set{V: v, Why: "permutation"})
		}
		d := make([]time.Duration, len(base))
		for i, x := range base {
			d[i] = time.Duration(math.Float64bits(x))
		}
		fam = append(fam, c20Set{IsDur: true, D: d, Why: "duration set with the value set's bit patterns (equal identity)"})
	case 1: // value sets with equal sums of bit patterns
		a, b := float64(r.Range(1, 50)), float64(r.Range(51, 100))
		fam = append(fam, c20Set{V: []float64{a, b}, Why: "base"})
		for k := 0; k < r.Range(1, 4); k++ {
			delta := uint64(r.Range(1, 1<<20)) << uint(r.Intn(30))
			x := math.Float64frombits(math.Float64bits(a) + delta)
			y := math.Float64frombits(math.Float64bits(b) - delta)
			if math.IsNaN(x) || math.IsNaN(y) || math.IsInf(x, 0) || math.IsInf(y, 0) {
				continue
			}
			fam = append(fam, c20Set{V: []float64{x, y}, Why: "bits moved between two elements (equal sum)"})
		}
		// and a single-element set with the same sum: bits(a)+bits(b) usually is not finite; skip
	case 2: // duration sets with equal sums
		a, b := time.Duration(r.Range(1, 1000)), time.Duration(r.Range(1001, 5000))
		fam = append(fam, c20Set{IsDur: true, D: []time.Duration{a, b}, Why: "base"})
		for k := 0; k < r.Range(1, 4); k++ {
			d := time.Duration(r.Range(1, int(a)))
			fam = append(fam, c20Set{IsDur: true, D: []time.Duration{a - d, b + d}, Why: "equal sum"})
		}
		fam = append(fam, c20Set{IsDur: true, D: []time.Duration{b, a}, Why: "permutation"})
		if a > 2 {
			fam = append(fam, c20Set{IsDur: true, D: []time.Duration{1, a - 1, b}, Why: "equal sum, other length"})
		}
	default: // mixed: duplicates and permutations of a longer duration set, plus a value twin
		base := r.DurationSpec(10)
		for len(base) < 3 {
			base = append(base, r.AnyDuration())
		}
		fam = append(fam, c20Set{IsDur: true, D: base, Why: "base"})
		p := r.Perm(len(base))
		d := make([]time.Duration, len(base))
		for i, j := range p {
			d[i] = base[j]
		}
		fam = append(fam, c20Set{IsDur: true, D: d, Why: "permutation"})
		// two elements merged into their sum
		m := append([]time.Duration{base[0] + base[1]}, base[2:]...)
		if len(m) > 0 {
			fam = append(fam, c20Set{IsDur: true, D: m, Why: "two elements merged (sum differs by the missing seed only if lengths equal)"})
		}
		v := make([]float64, 0, len(base))
		okv := true
		for _, x := range base {
			f := math.Float64frombits(uint64(x))
			if math.IsNaN(f) || math.IsInf(f, 0) {
				okv = false
			}
			v = append(v, f)
		}
		if okv {
			fam = append(fam, c20Set{V: v, Why: "value set with the duration set's bit patterns"})
		}
	}
	return fam
}

func c20Isolation(c *mon.Ctx, r *mon.Rand) {
	fam := c20Family(r)
	if len(fam) < 2 {
		return
	}
	if r.Chance(1, 4) {
		// specifications without bounds (empty, not nil), one of each kind: a
		// histogram of that kind with the single all-covering bucket
		fam = append(fam, c20Set{V: []float64{}, Why: "empty value specification"}, c20Set{IsDur: true, D: []time.Duration{}, Why: "empty duration specification"})
	}
	c.Eval(1)
	cached := r.Bool()
	concurrent := r.Chance(1, 3)
	var prec *mon.PlainRec
	var crec *mon.CachedRec
	opts := tally.ScopeOptions{OmitCardinalityMetrics: true}
	kind := "plain"
	if cached {
		kind = "cached"
		crec = mon.NewCachedRec(true)
		opts.CachedReporter = crec
	} else {
		prec = mon.NewPlainRec(true)
		opts.Reporter = prec
	}
	root, _ := vNewRoot(opts, 0, uint(r.Range(0, 4)))
	order := r.Perm(len(fam))
	hes := make([]histExpect, len(fam))
	scopes := make([]tally.Scope, len(fam))
	for i := range fam {
		if r.Bool() {
			scopes[i] = root.SubScope(fmt.Sprintf("s%d", i))
			hes[i].Name = fmt.Sprintf("s%d.h%d", i, i)
		} else {
			scopes[i] = root
			hes[i].Name = fmt.Sprintf("h%d", i)
		}
		hes[i].IsDur = fam[i].IsDur
		hes[i].V = fam[i].V
		hes[i].D = fam[i].D
		hes[i].Mult = 1
		if fam[i].IsDur {
			hes[i].SamplesD = r.SamplesForDurations(fam[i].D, 3)
		} else {
			hes[i].SamplesV = r.SamplesForValues(fam[i].V, 3)
		}
	}
	// half of the sequential cases: the caller re-uses one buffer per length for
	// the bucket sets it hands to Histogram(), overwriting it between creations
	reuse := !concurrent && r.Bool()
	bufV := map[int][]float64{}
	bufD := map[int][]time.Duration{}
	ctx := map[string]interface{}{"family": fmt.Sprint(fam), "creation_order": order, "concurrent": concurrent, "caller_reuses_its_slice": reuse}
	c.Distinct(mon.Hash64(fmt.Sprint(fam), fmt.Sprint(order)))
	c.Class("isolation-"+kind, 1)
	if concurrent {
		c.Class("isolation-concurrent", 1)
	}
	if reuse {
		c.Class("isolation-caller-reuses-its-slice", 1)
	}
	custom := make([]bool, len(fam))
	skipped := make([]bool, len(fam))
	if !concurrent && r.Chance(1, 4) {
		for try := 0; try < 4; try++ {
			if k := r.Intn(len(fam)); !fam[k].IsDur && k != order[0] {
				custom[k] = true
				break
			}
		}
	}
	create := func(i int) {
		var b tally.Buckets
		if fam[i].IsDur {
			d := append([]time.Duration(nil), fam[i].D...)
			if reuse {
				if bufD[len(d)] == nil {
					bufD[len(d)] = d
				}
				copy(bufD[len(d)], d)
				d = bufD[len(d)]
			}
			b = tally.DurationBuckets(d)
		} else {
			v := append([]float64(nil), fam[i].V...)
			if reuse {
				if bufV[len(v)] == nil {
					bufV[len(v)] = v
				}
				copy(bufV[len(v)], v)
				v = bufV[len(v)]
			}
			b = tally.ValueBuckets(v)
			if custom[i] {
				b = c20Units(v)
			}
		}
		if custom[i] {
			// a caller-defined Buckets implementation: the library may refuse it (it
			// panics today), but a histogram it does return must use these bounds
			refused := true
			func() {
				defer func() { recover() }()
				scopes[i].Histogram(fmt.Sprintf("h%d", i), b)
				refused = false
			}()
			if refused {
				skipped[i] = true
				c.Class("custom-buckets-type-refused-by-the-library", 1)
				return
			}
			c.Class("custom-buckets-type-accepted", 1)
		}
		h := scopes[i].Histogram(fmt.Sprintf("h%d", i), b)
		for _, x := range hes[i].SamplesV {
			h.RecordValue(x)
		}
		for _, x := range hes[i].SamplesD {
			h.RecordDuration(x)
		}
	}
	if concurrent {
		var wg sync.WaitGroup
		start := make(chan struct{})
		for _, i := range order {
			wg.Add(1)
			go func(i int) {
				defer wg.Done()
				<-start
				c.Guard("panic-create", func() interface{} { return ctx }, func() { create(i) })
			}(i)
		}
		close(start)
		wg.Wait()
	} else {
		for _, i := range order {
			if c.Guard("panic-create", func() interface{} { return ctx }, func() { create(i) }) {
				return
			}
		}
	}
	if reuse {
		// the caller goes on using its buffers for something else
		for _, b := range bufV {
			for k := range b {
				b[k] = 12345.678 + float64(k)
			}
		}
		for _, b := range bufD {
			for k := range b {
				b[k] = time.Duration(777 + k)
			}
		}
	}
	tally.VerifReportPass(root)
	// a third of the sequential cases go on: one member that lives in a subscope
	// of its own is closed and dropped by a pass, a further histogram with a
	// permutation of a surviving member's set is created, and every survivor
	// records its samples once more - each still with its own bounds
	if !concurrent && r.Chance(1, 3) {
		victim := -1
		for _, i := range r.Perm(len(fam)) {
			if scopes[i] != root && !skipped[i] && !custom[i] {
				victim = i
				break
			}
		}
		if victim >= 0 {
			if c.Guard("panic-create", func() interface{} { return ctx }, func() {
				scopes[victim].(io.Closer).Close()
				tally.VerifReportPass(root) // reports the closed scope once more and drops it
				j := (victim + 1) % len(fam)
				late := histExpect{Name: "late.hl", IsDur: fam[j].IsDur, Mult: 1}
				ls := root.SubScope("late")
				if fam[j].IsDur {
					for k := len(fam[j].D) - 1; k >= 0; k-- {
						late.D = append(late.D, fam[j].D[k])
					}
					late.SamplesD = r.SamplesForDurations(late.D, 2)
					h := ls.Histogram("hl", tally.DurationBuckets(append([]time.Duration(nil), late.D...)))
					for _, x := range late.SamplesD {
						h.RecordDuration(x)
					}
				} else {
					for k := len(fam[j].V) - 1; k >= 0; k-- {
						late.V = append(late.V, fam[j].V[k])
					}
					late.SamplesV = r.SamplesForValues(late.V, 2)
					h := ls.Histogram("hl", tally.ValueBuckets(append([]float64(nil), late.V...)))
					for _, x := range late.SamplesV {
						h.RecordValue(x)
					}
				}
				for _, i := range order {
					if i == victim || skipped[i] || custom[i] {
						continue
					}
					create(i) // the name exists: the same histogram, its samples once more
					hes[i].Mult = 2
				}
				hes = append(hes, late)
				skipped = append(skipped, false)
				tally.VerifReportPass(root)
			}) {
				return
			}
			ctx["a_member_closed_and_dropped_then_a_late_permutation"] = victim
			c.Class("isolation-with-a-dropped-member", 1)
		}
	}
	var log []mon.Event
	if cached {
		log, _, _ = crec.Snapshot()
	} else {
		log, _, _ = prec.Snapshot()
	}
	c.Event("histograms-created-in-colliding-families", int64(len(fam)))
	for i := range hes {
		if skipped[i] {
			continue
		}
		checkHistLog(c, kind, cached, log, hes[i], ctx)
	}
	// what a plain reporter is told the specification is: the bounds the
	// histogram was created with, whatever the caller has done to its slice since
	if prec != nil {
		for i := range fam {
			if skipped[i] || custom[i] {
				continue
			}
			for _, ev := range log {
				if ev.Name != hes[i].Name || ev.Spec == nil || (ev.Kind != mon.EvHistV && ev.Kind != mon.EvHistD) {
					continue
				}
				same := ev.Spec.Len() == len(fam[i].V)+len(fam[i].D)
				if same && fam[i].IsDur {
					for k, d := range ev.Spec.AsDurations() {
						same = same && d == fam[i].D[k]
					}
				} else if same {
					// (as numbers: sets that differ only in the sign of a zero are one set
					// to the bucket cache and may share a specification, DESIGN.md section 5)
					for k, v := range ev.Spec.AsValues() {
						same = same && (v == fam[i].V[k] || math.IsNaN(v) && math.IsNaN(fam[i].V[k]))
					}
				}
				if !same {
					c.Violation("buckets-arg-differs/"+kind, map[string]interface{}{"why": fmt.Sprintf("histogram %s was created with %v; the specification handed to the reporter with its samples is %v", hes[i].Name, fam[i], ev.Spec), "case": ctx})
					return
				}
			}
		}
	}
}

// c20Units is a caller-defined Buckets implementation (value buckets).
type c20Units []float64

func (u c20Units) String() string      { return fmt.Sprint([]float64(u)) }
func (u c20Units) Len() int            { return len(u) }
func (u c20Units) Less(i, j int) bool  { return u[i] < u[j] }
func (u c20Units) Swap(i, j int)       { u[i], u[j] = u[j], u[i] }
func (u c20Units) AsValues() []float64 { return append([]float64(nil), u...) }
func (u c20Units) AsDurations() []time.Duration {
	out := make([]time.Duration, len(u))
	for i, v := range u {
		out[i] = time.Duration(v * float64(time.Second))
	}
	return out
}

// c20NoMutationReporters: the caller's slice also stays as it is when the
// scope sits on one of the real reporters, which receive the specification in
// AllocateHistogram (the Prometheus client refuses unsorted or duplicated
// bounds with a panic of its own - outside C17's quantifier and not C20's
// business, recovered here; only the caller's slice is looked at).
func c20NoMutationReporters(c *mon.Ctx, r *mon.Rand) {
	isDur := r.Bool()
	vspec := r.ValueSpec(12)
	dspec := r.DurationSpec(12)
	vorig := append([]float64(nil), vspec...)
	dorig := append([]time.Duration(nil), dspec...)
	backends := map[string]func() tally.CachedStatsReporter{
		"prometheus": func() tally.CachedStatsReporter {
			return tprom.NewReporter(tprom.Options{Registerer: prom.NewRegistry(), OnRegisterError: func(error) {}})
		},
		"m3": func() tally.CachedStatsReporter {
			rep, err := m3.NewReporter(m3.Options{HostPorts: []string{mon.DeadPort()}, Service: "svc", Env: "test"})
			if err != nil {
				return nil
			}
			return rep
		},
	}
	for name, mk := range backends {
		func() {
			defer func() { recover() }()
			rep := mk()
			if rep == nil {
				return
			}
			root, closer := tally.NewRootScope(tally.ScopeOptions{CachedReporter: rep, OmitCardinalityMetrics: true, Separator: "_"}, 0)
			defer closer.Close()
			sc := root.Tagged(map[string]string{"k": "v"})
			if isDur {
				sc.Histogram("h", tally.DurationBuckets(dspec)).RecordDuration(1)
			} else {
				sc.Histogram("h", tally.ValueBuckets(vspec)).RecordValue(1)
			}
		}()
		c.Event("reporter-backed-no-mutation-probes", 1)
		if !sameBitsV(vspec, vorig) || fmt.Sprint(dspec) != fmt.Sprint(dorig) {
			c.Violation("caller-slice-modified", fmt.Sprintf("Histogram() on a scope over the %s reporter changed the caller's slice: before %v %v after %v %v", name, vorig, dorig, vspec, dspec))
			return
		}
	}
}

// c20Defaults: "the bounds it was created with" for a histogram requested with
// no specification are the root's configured DefaultBuckets - on the root and
// on every scope derived from it, whatever other sets were used under the root.
func c20Defaults(c *mon.Ctx, r *mon.Rand) {
	isDur := r.Bool()
	var def tally.Buckets
	base := histExpect{IsDur: isDur, Mult: 1}
	if isDur {
		base.D = r.DurationSpec(8)
		def = tally.DurationBuckets(append([]time.Duration(nil), base.D...))
	} else {
		base.V = r.ValueSpec(8)
		def = tally.ValueBuckets(append([]float64(nil), base.V...))
	}
	cached := r.Bool()
	opts := tally.ScopeOptions{OmitCardinalityMetrics: true, DefaultBuckets: def}
	var prec *mon.PlainRec
	var crec *mon.CachedRec
	kind := "plain"
	if cached {
		kind = "cached"
		crec = mon.NewCachedRec(true)
		opts.CachedReporter = crec
	} else {
		prec = mon.NewPlainRec(true)
		opts.Reporter = prec
	}
	root, _ := vNewRoot(opts, 0, uint(r.Range(0, 3)))
	ctx := map[string]interface{}{"scenario": "histograms requested without a specification use the root's DefaultBuckets", "default_buckets": fmt.Sprint(def), "reporter": kind}
	c.Eval(1)
	scopes := map[string]tally.Scope{"d0": root, "s.d1": root.SubScope("s"), "d2": root.Tagged(map[string]string{"k": "v"}), "s.t.d3": root.SubScope("s").Tagged(map[string]string{"k": "v"}).SubScope("t")}
	var hes []histExpect
	if c.Guard("panic-create", func() interface{} { return ctx }, func() {
		// another explicit set first, so that the cache is not empty
		root.Histogram("other", tally.ValueBuckets{1, 2, 3}).RecordValue(1)
		for full, sc := range scopes {
			he := base
			he.Name = full
			short := full[strings.LastIndex(full, ".")+1:]
			var h tally.Histogram
			if r.Bool() {
				h = sc.Histogram(short, nil)
			} else {
				h = sc.Histogram(short, tally.DefaultBuckets)
			}
			if isDur {
				he.SamplesD = r.SamplesForDurations(base.D, 2)
				for _, x := range he.SamplesD {
					h.RecordDuration(x)
				}
			} else {
				he.SamplesV = r.SamplesForValues(base.V, 2)
				for _, x := range he.SamplesV {
					h.RecordValue(x)
				}
			}
			hes = append(hes, he)
		}
		tally.VerifReportPass(root)
	}) {
		return
	}
	var log []mon.Event
	if cached {
		log, _, _ = crec.Snapshot()
	} else {
		log, _, _ = prec.Snapshot()
	}
	for _, he := range hes {
		checkHistLog(c, kind, cached, log, he, ctx)
	}
	c.Event("default-bucket-histograms-checked", int64(len(hes)))
}

// c20M3Probe: a family of colliding sets allocated, in order, on ONE M3
// reporter, every bucket of every histogram reported once; the bucket tags
// each histogram emits (observed at batch emission) are compared with the
// tags the same set produces on a reporter of its own.
func c20M3Probe(c *mon.Ctx, r *mon.Rand) {
	fam := c20Family(r)
	if len(fam) < 2 {
		return
	}
	collect := func(which []int) (map[string][]string, bool) {
		var mu sync.Mutex
		out := map[string][]string{}
		m3.VerifSetBatchHook(func(b m3.VerifBatch) {
			mu.Lock()
			defer mu.Unlock()
			for _, m := range b.Metrics {
				var id, rng string
				for _, t := range m.Tags {
					switch t.Name {
					case "bucketid":
						id = t.Value
					case "bucket":
						rng = t.Value
					}
				}
				if rng != "" || id != "" {
					out[m.Name] = append(out[m.Name], id+" "+rng)
				}
			}
		})
		defer m3.VerifSetBatchHook(nil)
		rep, err := m3.NewReporter(m3.Options{Service: "s", Env: "e", HostPorts: []string{mon.DeadPort()}, MaxQueueSize: 4096})
		if err != nil {
			return nil, false
		}
		for _, i := range which {
			name := fmt.Sprintf("f%d", i)
			if fam[i].IsDur {
				h := rep.AllocateHistogram(name, nil, tally.DurationBuckets(append([]time.Duration(nil), fam[i].D...)))
				for _, p := range mon.RefPairsD(fam[i].D) {
					if p.Lo < p.Hi { // (zero-width buckets of repeated bounds never hold samples)
						h.DurationBucket(p.Lo, p.Hi).ReportSamples(1)
					}
				}
			} else {
				h := rep.AllocateHistogram(name, nil, tally.ValueBuckets(append([]float64(nil), fam[i].V...)))
				for _, p := range mon.RefPairsV(fam[i].V) {
					if p.Lo < p.Hi {
						h.ValueBucket(p.Lo, p.Hi).ReportSamples(1)
					}
				}
			}
		}
		rep.Close()
		mu.Lock()
		defer mu.Unlock()
		return out, true
	}
	all := make([]int, len(fam))
	for i := range all {
		all[i] = i
	}
	shared, ok := collect(all)
	if !ok {
		return
	}
	for i := range fam {
		alone, ok := collect([]int{i})
		if !ok {
			return
		}
		name := fmt.Sprintf("f%d", i)
		// one sample was reported on every bucket (repeated bounds make zero-width
		// buckets of their own): as many emissions as buckets, no bucket id twice
		var wantIDs []int // positions, among all buckets of the sorted set, of those that are not zero-width
		if fam[i].IsDur {
			for k, p := range mon.RefPairsD(fam[i].D) {
				if p.Lo < p.Hi {
					wantIDs = append(wantIDs, k)
				}
			}
		} else {
			for k, p := range mon.RefPairsV(fam[i].V) {
				if p.Lo < p.Hi {
					wantIDs = append(wantIDs, k)
				}
			}
		}
		var gotIDs []int
		for _, e := range shared[name] {
			id := -1
			fmt.Sscanf(e, "%d", &id)
			gotIDs = append(gotIDs, id)
		}
		if fmt.Sprint(gotIDs) != fmt.Sprint(wantIDs) {
			c.Violation("m3-bucket-ids-not-the-bucket-positions", map[string]interface{}{"why": fmt.Sprintf("set %d (%s): one sample was reported on every bucket that is not zero-width, in order; their positions among the buckets of the sorted set are %v, the bucket ids emitted are %v (%v)", i, fam[i].Why, wantIDs, gotIDs, shared[name]), "family": fam})
			return
		}
		if fmt.Sprint(alone[name]) != fmt.Sprint(shared[name]) {
			c.Violation("m3-bucket-tags-differ-when-sets-share-a-reporter", map[string]interface{}{"why": fmt.Sprintf("set %d (%s): bucket tags emitted on a reporter of its own %v; emitted after the other sets of the family were allocated on the same reporter %v", i, fam[i].Why, alone[name], shared[name]), "family": fam})
			return
		}
		c.Event("m3-bucket-tag-lists-compared", 1)
	}
}
