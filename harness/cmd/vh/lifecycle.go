package main

import (
	"fmt"
	"io"
	"math"
	"strings"
	"time"

	tally "github.com/uber-go/tally/v4"

	"verifharness/mon"
)

// lifecycleCase drives the "second life" of scopes and metric handles, the
// part of a history that first-use workloads never reach: handles kept across
// the Close and the purge of their scope, fresh metrics created afterwards
// (any object the library recycled would now be shared with them), scopes
// re-derived after a Close, names first used on a closed scope.
//
// Oracle (one ordered reporter log): every counter delivers exactly what was
// added to it while its scope was live (C01), every gauge only values passed
// to it and the last one after the final pass (C02), and a metric that was
// never recorded on delivers nothing at all - whatever stale handles of
// dropped scopes do in the meantime (C07: closing a scope never affects any
// other scope).
func lifecycleCase(c *mon.Ctx, r *mon.Rand, prop string) {
	cached := r.Bool()
	var rec *mon.Recorder
	opts := tally.ScopeOptions{OmitCardinalityMetrics: true}
	if r.Bool() {
		opts.Tags = map[string]string{"rt": "x"}
	}
	if cached {
		cr := mon.NewCachedRec(true)
		rec = cr.Recorder
		opts.CachedReporter = cr
	} else {
		pr := mon.NewPlainRec(true)
		rec = pr.Recorder
		opts.Reporter = pr
	}
	// a quarter of the histories configure both reporter kinds: everything must
	// then go to one and the same reporter, the one the passes flush
	var recB *mon.Recorder
	if r.Chance(1, 4) {
		if cached {
			pr := mon.NewPlainRec(true)
			recB, opts.Reporter = pr.Recorder, pr
		} else {
			cr := mon.NewCachedRec(true)
			recB, opts.CachedReporter = cr.Recorder, cr
		}
	}
	// a fifth of the histories: a sanitizer that rewrites the tag values the
	// tagged scopes are requested with, every request spelling the value another
	// way ("gen-0", "gen.0", "gen:0" for "gen_0"): one scope under several raw
	// registry keys (one shard, so that all spellings meet in it)
	withSan := r.Chance(1, 5)
	shards := uint(r.Range(0, 3))
	if withSan {
		shards = 1
		opts.SanitizeOptions = &tally.SanitizeOptions{
			NameCharacters:       tally.ValidCharacters{Ranges: tally.AlphanumericRange, Characters: tally.UnderscoreDashDotCharacters},
			KeyCharacters:        tally.ValidCharacters{Ranges: tally.AlphanumericRange, Characters: tally.UnderscoreCharacters},
			ValueCharacters:      tally.ValidCharacters{Ranges: tally.AlphanumericRange, Characters: tally.UnderscoreCharacters},
			ReplacementCharacter: '_',
		}
	}
	spell := 0
	root, _ := vNewRoot(opts, 0, shards)
	tagsOf := func(extra map[string]string) map[string]string {
		out := map[string]string{}
		for k, v := range opts.Tags {
			out[k] = v
		}
		for k, v := range extra {
			out[k] = v
		}
		return out
	}
	var ops []string
	desc := func() interface{} {
		return map[string]interface{}{"cached": cached, "both_reporter_kinds": recB != nil, "rewriting_sanitizer": withSan, "root_tags": len(opts.Tags), "ops": ops}
	}
	c.Eval(1)
	bad := func(sig, why string) {
		// each property looks at its own kind of evidence in these histories (C07,
		// "closing a scope harms nothing", at all of it)
		switch {
		case prop == "C03" && !strings.Contains(why, "histogram"):
			return
		case prop == "C01" && strings.HasPrefix(why, "gauge"):
			return
		case prop == "C02" && (strings.HasPrefix(why, "counter") || strings.HasPrefix(why, "histogram")):
			return
		}
		c.Violation(sig, map[string]interface{}{"why": why, "case": desc()})
	}

	type handles struct {
		c tally.Counter
		g tally.Gauge
		h tally.Histogram
	}
	vb := tally.ValueBuckets{10}
	obtain := func(sc tally.Scope) handles {
		return handles{sc.Counter("c"), sc.Gauge("g"), sc.Histogram("h", vb)}
	}
	// expected per metric key
	wantCtr := map[string]int64{}
	wantGauge := map[string][]uint64{} // values passed, in order
	untouched := map[string]bool{}     // keys that must never see a delivery
	lastGauge := map[string]uint64{}   // keys whose final delivered value is known
	wantHistLow := map[string]int64{}  // histogram key -> samples recorded while live (all in the bucket up to 10)
	nGen := r.Range(2, 5)
	var seq int64
	c.Guard("panic-lifecycle", desc, func() {
		var stale []handles
		var staleScopes []tally.Scope
		var staleKeys []string
		for gen := 0; gen < nGen; gen++ {
			name := fmt.Sprintf("gen%d", gen)
			var sc tally.Scope
			var prefix string
			var tags map[string]string
			derive := func() tally.Scope { return root.SubScope(name) }
			switch {
			case len(opts.Tags) > 0 && r.Chance(1, 3):
				// a pure override of a root tag (adds no key of its own)
				derive = func() tally.Scope { return root.Tagged(map[string]string{"rt": name}) }
				sc, prefix, tags = derive(), "", tagsOf(map[string]string{"rt": name})
			case r.Bool():
				sc, prefix, tags = derive(), name, tagsOf(nil)
			case withSan:
				clean := fmt.Sprintf("gen_%d", gen)
				derive = func() tally.Scope {
					spell++
					return root.Tagged(map[string]string{"g": fmt.Sprintf("gen%s%d", []string{"-", ".", ":", "_"}[spell%4], gen)})
				}
				sc, prefix, tags = derive(), "", tagsOf(map[string]string{"g": clean})
			default:
				derive = func() tally.Scope { return root.Tagged(map[string]string{"g": name}) }
				sc, prefix, tags = derive(), "", tagsOf(map[string]string{"g": name})
			}
			key := func(m string) string { return mon.IdentKey(mon.RefName(prefix, ".", m), tags) }
			h := obtain(sc)
			ops = append(ops, "obtain "+name)
			// record while live
			seq++
			h.c.Inc(seq)
			wantCtr[key("c")] += seq
			v := float64(seq) + 0.25
			h.g.Update(v)
			wantGauge[key("g")] = append(wantGauge[key("g")], math.Float64bits(v))
			h.h.RecordValue(1) // live samples land in (-inf,10], samples through stale handles in (10,+inf)
			wantHistLow[key("h")]++
			if r.Bool() {
				tally.VerifReportPass(root)
				ops = append(ops, "pass")
			}
			// close it; the handles stay with the application
			sc.(io.Closer).Close()
			ops = append(ops, "close "+name)
			if r.Chance(1, 4) {
				// requested again at once, before any pass: the registry reports the
				// closed scope on the spot - everything recorded before the Close is
				// delivered now, the gauge's last value included
				fresh2 := obtain(derive())
				_ = fresh2
				tally.VerifReportPass(root)
				ops = append(ops, "derive "+name+" again at once, pass")
				for _, rr := range []*mon.Recorder{rec, recB} {
					if rr == nil {
						continue
					}
					a := rr.GetAgg(key("g"))
					ac := rr.GetAgg(key("c"))
					if a.N == 0 && ac.N == 0 && recB != nil {
						continue // the other reporter kind is the one in use
					}
					if a.LastBits != math.Float64bits(v) {
						bad("stale-value", fmt.Sprintf("gauge %q: updated to %v, scope closed and requested again before any pass: the most recent delivered value is %v (%d deliveries)", key("g"), v, math.Float64frombits(a.LastBits), a.N))
					}
					if ac.Sum != wantCtr[key("c")] {
						bad("conservation-lifecycle", fmt.Sprintf("counter %q: %d delivered after the closed scope was requested again, %d added before its Close", key("c"), ac.Sum, wantCtr[key("c")]))
					}
				}
			} else if r.Chance(2, 3) {
				tally.VerifReportPass(root) // the pass drops the closed scope
				ops = append(ops, "pass")
			}
			stale = append(stale, h)
			staleScopes = append(staleScopes, sc)
			staleKeys = append(staleKeys, key("c"))
			// fresh metrics created after the drop, never recorded on
			fresh := root.SubScope(fmt.Sprintf("fresh%d", gen))
			for k := 0; k < r.Range(1, 6); k++ {
				fh := handles{fresh.Counter(fmt.Sprintf("c%d", k)), fresh.Gauge(fmt.Sprintf("g%d", k)), fresh.Histogram(fmt.Sprintf("h%d", k), vb)}
				_ = fh
				for _, m := range []string{"c", "g"} {
					untouched[mon.IdentKey(fmt.Sprintf("fresh%d.%s%d", gen, m, k), tagsOf(nil))] = true
				}
				untouched["hist:"+fmt.Sprintf("fresh%d.h%d", gen, k)] = true
			}
			ops = append(ops, fmt.Sprintf("create never-recorded metrics under fresh%d", gen))
			// the application goes on using its stale handles (not guaranteed to be
			// delivered any more - but they must not surface anywhere else)
			for _, sh := range stale {
				seq++
				sh.c.Inc(1000000)
				sh.g.Update(float64(2000000 + seq))
				sh.h.RecordValue(100)
				sh.h.Start().Stop()
			}
			// ... and makes first uses of new names on the closed (possibly already
			// dropped) scope objects it still holds: harmless, whatever is delivered
			for _, ss := range staleScopes {
				ss.Timer("late-t").Record(time.Millisecond)
				ss.Timer("late-t").Start().Stop()
				ss.Counter("late-c").Inc(1000000)
				ss.Gauge("late-g").Update(2000001)
				ss.Histogram("late-h", vb).RecordValue(1)
				ss.Histogram("late-hd", tally.DurationBuckets{time.Second}).RecordDuration(time.Millisecond)
			}
			ops = append(ops, "record through every stale handle, first uses on every stale scope")
			tally.VerifReportPass(root)
			ops = append(ops, "pass")
			// second life: the same identity derived again is a working scope
			if r.Bool() {
				sc2 := derive()
				h2 := obtain(sc2)
				seq++
				h2.c.Inc(seq)
				wantCtr[key("c")] += seq
				v := float64(seq) + 0.5
				h2.g.Update(v)
				wantGauge[key("g")] = append(wantGauge[key("g")], math.Float64bits(v))
				ops = append(ops, "derive "+name+" again and record")
				tally.VerifReportPass(root)
				ops = append(ops, "pass")
			}
		}
		// the root requested through its own identity (no tags, or exactly the root's
		// tags) is the root: one gauge object behind all three handles, so the last
		// of three updates is what the next pass delivers last
		{
			r2 := root.Tagged(nil)
			r3 := root.Tagged(mon.CopyTags(opts.Tags))
			r2.Gauge("rg").Update(31.5)
			r3.Gauge("rg").Update(32.5)
			root.Gauge("rg").Update(33.5) // the handle the root was created as comes last
			kr := mon.IdentKey("rg", tagsOf(nil))
			for _, x := range []float64{31.5, 32.5, 33.5} {
				wantGauge[kr] = append(wantGauge[kr], math.Float64bits(x))
			}
			lastGauge[kr] = math.Float64bits(33.5)
			// and a scope tagged twice from a tagged parent is not the root-level scope
			// that carries only the inner tags
			inner := map[string]string{"b": "2"}
			x := root.Tagged(map[string]string{"a": "1"}).Tagged(mon.CopyTags(inner))
			y := root.Tagged(mon.CopyTags(inner))
			x.Gauge("tg").Update(41.5)
			y.Gauge("tg").Update(42.5)
			kx, ky := mon.IdentKey("tg", tagsOf(map[string]string{"a": "1", "b": "2"})), mon.IdentKey("tg", tagsOf(inner))
			wantGauge[kx] = append(wantGauge[kx], math.Float64bits(41.5))
			wantGauge[ky] = append(wantGauge[ky], math.Float64bits(42.5))
			lastGauge[kx], lastGauge[ky] = math.Float64bits(41.5), math.Float64bits(42.5)
			ops = append(ops, "root identity through Tagged(nil)/Tagged(root tags); a twice-tagged scope next to a root-level scope with the inner tags")
		}
		// two metrics whose names and tags differ but whose delimiter-joined
		// rendering (name + '+' + k=v pairs) is one string: two metrics nevertheless
		if len(opts.Tags) == 0 && !withSan {
			twin := root.Tagged(map[string]string{"k": "v+"})
			ga, gb := root.Gauge("tw+k=v"), twin.Gauge("tw")
			ca, cb := root.Counter("tw+k=v"), twin.Counter("tw")
			ga.Update(11.25)
			gb.Update(22.5)
			ca.Inc(11)
			cb.Inc(22)
			ka, kb := mon.IdentKey("tw+k=v", nil), mon.IdentKey("tw", map[string]string{"k": "v+"})
			wantGauge[ka] = append(wantGauge[ka], math.Float64bits(11.25))
			wantGauge[kb] = append(wantGauge[kb], math.Float64bits(22.5))
			wantCtr[ka] += 11
			wantCtr[kb] += 22
			lastGauge[ka], lastGauge[kb] = math.Float64bits(11.25), math.Float64bits(22.5)
			ops = append(ops, "metric twins tw+k=v{} and tw{k:v+}")
		}
		tally.VerifReportPass(root)
		_ = staleKeys
	})
	log, _, _ := rec.Snapshot()
	if recB != nil {
		logB, _, _ := recB.Snapshot()
		count := func(l []mon.Event) (flushes, deliveries int) {
			for _, ev := range l {
				switch ev.Kind {
				case mon.EvFlush:
					flushes++
				case mon.EvCounter, mon.EvGauge, mon.EvHistV, mon.EvHistD:
					deliveries++
				}
			}
			return
		}
		fa, da := count(log)
		fb, db := count(logB)
		switch {
		case fa > 0 && fb > 0:
			bad("both-reporters-flushed", fmt.Sprintf("both reporter kinds are configured and both were flushed (%d and %d times)", fa, fb))
		case fb > 0:
			log, da, db = logB, db, da
		}
		if db > 0 {
			bad("delivery-to-the-reporter-that-is-not-flushed", fmt.Sprintf("both reporter kinds are configured: the one the passes flush received %d buffered deliveries, the other one %d", da, db))
		}
		c.Class("lifecycle-histories-with-both-reporter-kinds", 1)
	}
	gotCtr := map[string]int64{}
	gotGauge := map[string][]uint64{}
	gotHistLow := map[string]int64{}
	for _, ev := range log {
		switch ev.Kind {
		case mon.EvCounter:
			gotCtr[ev.Key] += ev.I
			if untouched[ev.Key] {
				bad("delivery-for-never-recorded-metric", fmt.Sprintf("counter %q %v was never incremented but %d was delivered for it", ev.Name, ev.Tags, ev.I))
			}
		case mon.EvGauge:
			gotGauge[ev.Key] = append(gotGauge[ev.Key], ev.F)
			if untouched[ev.Key] {
				bad("delivery-for-never-recorded-metric", fmt.Sprintf("gauge %q %v was never updated but %v was delivered for it", ev.Name, ev.Tags, math.Float64frombits(ev.F)))
			}
		case mon.EvHistV, mon.EvHistD:
			if ev.Kind == mon.EvHistV && ev.Hi == 10 {
				gotHistLow[mon.IdentKey(ev.Name, ev.Tags)] += ev.I
			}
			if untouched["hist:"+ev.Name] {
				bad("delivery-for-never-recorded-metric", fmt.Sprintf("histogram %q was never recorded on but %d samples were delivered for it", ev.Name, ev.I))
			}
		}
	}
	c.Event("lifecycle-metrics-checked", int64(len(wantCtr)+len(wantGauge)+len(untouched)))
	for k, w := range wantCtr {
		// stale-handle increments (>= 1000000) are not guaranteed; everything else is
		g := gotCtr[k]
		if g%1000000 != w || g < w {
			if prop == "C02" {
				continue
			}
			bad("conservation-lifecycle", fmt.Sprintf("counter %q: %d delivered, %d added while its scope was live (modulo later increments through stale handles, each >= 1000000)", k, g, w))
		}
	}
	for k, w := range wantHistLow {
		if gotHistLow[k] != w && prop != "C02" {
			bad("conservation-lifecycle", fmt.Sprintf("histogram %q: %d samples delivered in the bucket up to 10, %d recorded there while its scope was live (stale handles only record above 10)", k, gotHistLow[k], w))
		}
	}
	for k, w := range wantGauge {
		set := map[uint64]bool{}
		for _, x := range w {
			set[x] = true
		}
		for _, x := range gotGauge[k] {
			v := math.Float64frombits(x)
			if !set[x] && v < 2000000 {
				bad("invented-or-early-value", fmt.Sprintf("gauge %q delivered %v, never passed to Update on it", k, v))
			}
		}
		if len(gotGauge[k]) == 0 {
			bad("stale-value", fmt.Sprintf("gauge %q: nothing delivered although it was updated while its scope was live", k))
		} else if lg, ok := lastGauge[k]; ok && gotGauge[k][len(gotGauge[k])-1] != lg {
			bad("stale-value", fmt.Sprintf("gauge %q: the last delivered value is %v, the last update %v", k, math.Float64frombits(gotGauge[k][len(gotGauge[k])-1]), math.Float64frombits(lg)))
		}
	}
	if prop == "C07" {
		// the reporter-less flavour: a test scope hands a closed subscope out again,
		// and the scope obtained afterwards is fully functional - first uses of new
		// names included, on it and on what is derived from the test scope next
		ts := tally.NewTestScope(r.Pick("", "t"), nil)
		pfx := mon.RefName(r.Pick("", "t"), ".", "")
		_ = pfx
		c.Guard("panic-lifecycle", desc, func() {
			sub := ts.SubScope("a")
			sub.Counter("before").Inc(1)
			sub.(io.Closer).Close()
			again := ts.SubScope("a")
			again.Counter("after").Inc(2)
			again.Gauge("g-after").Update(3)
			again.Timer("t-after").Record(time.Second)
			again.Histogram("h-after", vb).RecordValue(1)
			snap := ts.Snapshot()
			found := map[string]bool{}
			for _, cs := range snap.Counters() {
				if strings.HasSuffix(cs.Name(), "a.before") && cs.Value() == 1 {
					found["before"] = true
				}
				if strings.HasSuffix(cs.Name(), "a.after") && cs.Value() == 2 {
					found["after"] = true
				}
			}
			for _, gs := range snap.Gauges() {
				if strings.HasSuffix(gs.Name(), "a.g-after") && gs.Value() == 3 {
					found["g-after"] = true
				}
			}
			for _, tsn := range snap.Timers() {
				if strings.HasSuffix(tsn.Name(), "a.t-after") && len(tsn.Values()) == 1 {
					found["t-after"] = true
				}
			}
			for _, hs := range snap.Histograms() {
				if strings.HasSuffix(hs.Name(), "a.h-after") && hs.Values()[10] == 1 {
					found["h-after"] = true
				}
			}
			for _, k := range []string{"before", "after", "g-after", "t-after", "h-after"} {
				if !found[k] {
					c.Violation("reobtained-test-subscope-not-functional", map[string]interface{}{"why": fmt.Sprintf("test scope: SubScope(\"a\") closed and obtained again; the metric %q (first used %s the Close) is not in the snapshot with what was recorded", k, map[bool]string{true: "before", false: "after"}[k == "before"]), "found": fmt.Sprint(found)})
				}
			}
			c.Event("reobtained-test-subscopes-checked", 1)
		})
	}
	c.Distinct(mon.Hash64("lifecycle", fmt.Sprint(ops)))
	if c.WantSample() {
		c.Sample(desc())
	}
	_ = time.Second
}
