package main

import (
	"fmt"
	"math"
	"sort"
	"strings"
	"sync"
	"time"

	tally "github.com/uber-go/tally/v4"
	"github.com/uber-go/tally/v4/m3"
	m3thrift "github.com/uber-go/tally/v4/m3/thrift/v2"
	"github.com/uber-go/tally/v4/thirdparty/github.com/apache/thrift/lib/go/thrift"

	"verifharness/mon"
)

// m3ViaConfiguration makes newM3Env build the reporter through m3.Configuration
// where the options can be expressed that way (set per case by the caller).
var m3ViaConfiguration bool

// m3Env is one M3 reporter lifetime with its loopback sinks.
type m3Env struct {
	ExtraDests  int  // destinations given in opts.HostPorts that are not sinks (dead ports)
	ListedTwice bool // every sink is listed twice in HostPorts
	Sinks       []*mon.Sink
	Opts        m3.Options
	Rep         m3.Reporter
	TC0, TC1    int64 // clock readings before/after construction
	fmu         sync.Mutex
	FlushSeq    []int64 // sequence numbers of UDPFlushed hits
	inner       func(int)
}

// hook records UDPFlushed hits and forwards to an optional inner hook.
func (e *m3Env) hook(id int) {
	if id == tally.VerifUDPFlushed {
		s := mon.NextSeq()
		e.fmu.Lock()
		e.FlushSeq = append(e.FlushSeq, s)
		e.fmu.Unlock()
	}
	if e.inner != nil {
		e.inner(id)
	}
}

func (e *m3Env) flushes() []int64 {
	e.fmu.Lock()
	defer e.fmu.Unlock()
	return append([]int64(nil), e.FlushSeq...)
}

// m3ListTwice makes newM3Env list every live destination twice in HostPorts.
var m3ListTwice bool

func newM3Env(nSinks int, opts m3.Options, inner func(int)) (*m3Env, error) {
	return newM3EnvPorts(nSinks, opts, inner, false)
}

// newM3EnvPorts: lowPorts puts the sinks below the ephemeral port range (for
// lifetimes that close a sink while the reporter is still sending).
func newM3EnvPorts(nSinks int, opts m3.Options, inner func(int), lowPorts bool) (*m3Env, error) {
	e := &m3Env{inner: inner, ExtraDests: len(opts.HostPorts), ListedTwice: m3ListTwice}
	for i := 0; i < nSinks; i++ {
		newSink := mon.NewSink
		if lowPorts {
			newSink = mon.NewSinkLowPort
		}
		s, err := newSink()
		if err != nil {
			return nil, err
		}
		e.Sinks = append(e.Sinks, s)
		opts.HostPorts = append(opts.HostPorts, s.Addr())
		if m3ListTwice {
			opts.HostPorts = append(opts.HostPorts, s.Addr()) // the same destination listed twice: it receives everything twice
		}
	}
	e.Opts = opts
	tally.VerifSetHook(e.hook)
	e.TC0 = time.Now().UnixNano()
	var rep m3.Reporter
	var err error
	if m3ViaConfiguration && opts.Protocol == m3.Compact && opts.HistogramBucketIDName == "" && opts.HistogramBucketName == "" {
		// the same options expressed as the YAML-facing Configuration
		cfg := m3.Configuration{HostPorts: opts.HostPorts, Service: opts.Service, Env: opts.Env, CommonTags: opts.CommonTags, Queue: opts.MaxQueueSize,
			PacketSize: opts.MaxPacketSizeBytes, IncludeHost: opts.IncludeHost, HistogramBucketTagPrecision: opts.HistogramBucketTagPrecision, InternalTags: opts.InternalTags}
		if len(opts.HostPorts) == 1 {
			// the single-destination spelling of the configuration
			cfg.HostPort, cfg.HostPorts = opts.HostPorts[0], nil
		} else if len(opts.HostPorts) > 1 {
			// configuration files fill the mandatory hostPort as well, usually with
			// one of the listed destinations: it is not one more destination
			cfg.HostPort = opts.HostPorts[len(opts.HostPorts)-1]
		}
		rep, err = cfg.NewReporter()
	} else {
		rep, err = m3.NewReporter(opts)
	}
	e.TC1 = time.Now().UnixNano()
	if err != nil {
		e.closeSinks()
		tally.VerifSetHook(nil)
		return nil, err
	}
	e.Rep = rep
	return e, nil
}

func (e *m3Env) closeSinks() {
	for _, s := range e.Sinks {
		s.Close()
	}
}

// finish waits for the datagrams of every destination and releases the
// sockets. It returns false (inconclusive) if datagrams the transport sent
// never arrived.
func (e *m3Env) finish() (complete bool, why string) {
	defer tally.VerifSetHook(nil)
	defer e.closeSinks()
	total := len(e.flushes())
	if len(e.Sinks) == 0 {
		return true, ""
	}
	per := total / (len(e.Sinks) + e.ExtraDests)
	if e.ListedTwice {
		per = 2 * total / (2*len(e.Sinks) + e.ExtraDests)
	}
	for i, s := range e.Sinks {
		if !s.WaitFor(per, 10*time.Second) {
			return false, fmt.Sprintf("sink %d received %d of %d datagrams (kernel drops=%d)", i, s.Count(), per, s.Drops())
		}
	}
	return true, ""
}

// ---------------------------------------------------------------------------
// Call log and decoded-metric keys.

type m3Call struct {
	Kind    string // counter gauge timer hist
	Name    string
	Tags    map[string]string
	Val     uint64
	Lo, Hi  string // histogram bucket bounds rendered for the witness
	HistID  string // identity of the histogram (name+tags)
	BucketN int    // index of the bucket in the sorted pairs
	HiV     float64
	HiD     int64
	IsDur   bool
	TAfter  int64
	Racing  bool
}

func tagsMapKey(t map[string]string) string {
	ss := make([]string, 0, len(t))
	for k, v := range t {
		ss = append(ss, fmt.Sprintf("%d:%s=%d:%s", len(k), k, len(v), v))
	}
	sort.Strings(ss)
	return fmt.Sprint(ss)
}

func (c m3Call) key() string {
	k := c.Kind
	if k == "hist" {
		k = "counter/H"
	}
	return fmt.Sprintf("%s|%d:%s|%x|%s", k, len(c.Name), c.Name, c.Val, tagsMapKey(c.Tags))
}

// decodedKey renders an emitted metric the same way; ok=false for the
// reporter's own tally.internal.* metrics.
func decodedKey(m m3thrift.Metric, idName, bucketName string) (key string, bucketID, bucket string, isHist, internal bool) {
	if strings.HasPrefix(m.Name, "tally.internal.") {
		return "", "", "", false, true
	}
	var kind string
	var val uint64
	switch m.Value.MetricType {
	case m3thrift.MetricType_COUNTER:
		kind, val = "counter", uint64(m.Value.Count)
	case m3thrift.MetricType_GAUGE:
		kind, val = "gauge", math.Float64bits(m.Value.Gauge)
	case m3thrift.MetricType_TIMER:
		kind, val = "timer", uint64(m.Value.Timer)
	default:
		kind = fmt.Sprintf("type%d", m.Value.MetricType)
	}
	tags := map[string]string{}
	nID, nB := 0, 0
	var rest []m3thrift.MetricTag
	for _, t := range m.Tags {
		switch t.Name {
		case idName:
			nID++
			bucketID = t.Value
		case bucketName:
			nB++
			bucket = t.Value
		default:
			rest = append(rest, t)
		}
	}
	if nID == 1 && nB == 1 && kind == "counter" {
		isHist = true
		kind = "counter/H"
	} else {
		rest = m.Tags
	}
	ss := make([]string, 0, len(rest))
	for _, t := range rest {
		ss = append(ss, fmt.Sprintf("%d:%s=%d:%s", len(t.Name), t.Name, len(t.Value), t.Value))
		tags[t.Name] = t.Value
	}
	sort.Strings(ss)
	return fmt.Sprintf("%s|%d:%s|%x|%s", kind, len(m.Name), m.Name, val, fmt.Sprint(ss)), bucketID, bucket, isHist, false
}

// decodeAll decodes every datagram of a sink; well-formedness problems are
// returned as strings.
func decodeAll(p m3.Protocol, dgrams [][]byte) (msgs []decodedMsg, problems []string) {
	for i, d := range dgrams {
		m, err := decodeDatagram(p, d)
		if err != nil {
			problems = append(problems, fmt.Sprintf("datagram %d (%d bytes) does not decode: %v", i, len(d), err))
			continue
		}
		if m.Name != "emitMetricBatchV2" || m.Type != thrift.ONEWAY {
			problems = append(problems, fmt.Sprintf("datagram %d is message %q type %d, want one-way emitMetricBatchV2", i, m.Name, m.Type))
		}
		if m.Trailing != 0 {
			problems = append(problems, fmt.Sprintf("datagram %d has %d trailing bytes after the message", i, m.Trailing))
		}
		msgs = append(msgs, m)
	}
	return
}

// genM3Tags draws adversarial tag sets (never using the bucket tag names).
func genM3Tags(r *mon.Rand) map[string]string {
	switch r.Intn(10) {
	case 0:
		return nil
	case 1:
		return map[string]string{"a": "b=c"}
	case 2:
		return map[string]string{"a=b": "c"}
	case 3:
		return map[string]string{"": ""}
	case 4:
		return map[string]string{"a": "b", "c": "d"}
	case 5:
		return map[string]string{"a": "d", "c": "b"}
	}
	if r.Chance(1, 12) {
		// twins that agree on the concatenation of their keys and values, one with
		// an empty value
		if r.Bool() {
			return map[string]string{"x=y": "", "by": "stander"}
		}
		return map[string]string{"x": "y=", "by": "stander"}
	}
	n := r.Range(1, 8)
	if r.Chance(1, 4) {
		n = r.Range(9, 24) // beyond the pooled tag slices' initial capacity and the compact short-list form
	}
	t := make(map[string]string, n)
	for i := 0; i < n; i++ {
		k := genBytes(r, 12)
		if k == "bucketid" || k == "bucket" || k == "bid" || k == "bkt" {
			k += "x"
		}
		t[k] = genBytes(r, 20)
	}
	return t
}
