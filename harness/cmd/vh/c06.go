package main

import (
	"fmt"
	"io"
	"sort"
	"sync"
	"time"
	"unicode/utf8"

	tally "github.com/uber-go/tally/v4"
	"github.com/uber-go/tally/v4/m3"
	tprom "github.com/uber-go/tally/v4/prometheus"

	"verifharness/mon"
)

func init() { register("C06", runC06) }

func runC06(c *mon.Ctx) {
	c.Cases(func(i int, r *mon.Rand) {
		c06Direct(c, r.Fork(1))
		c06Scope(c, r.Fork(2))
		c06ExportedLists(c)
	})
}

// c06ExportedLists: a caller extends the exported character lists the usual
// way (append to a package-level slice), as any code in the process may. The
// lists, and the stock M3 and Prometheus sanitizers built from them, still
// allow exactly what they are documented to allow.
func c06ExportedLists(c *mon.Ctx) {
	_ = append(tally.UnderscoreCharacters, ':')
	_ = append(tally.UnderscoreDashCharacters, '/')
	_ = append(tally.UnderscoreDashDotCharacters, ' ')
	_ = append(tally.AlphanumericRange, tally.SanitizeRange{' ', '/'})
	if a, b, d := string(tally.UnderscoreCharacters), string(tally.UnderscoreDashCharacters), string(tally.UnderscoreDashDotCharacters); a != "_" || b != "-_" || d != ".-_" {
		c.Violation("exported-character-list-changed", map[string]interface{}{"why": fmt.Sprintf("after callers appended to copies of the exported lists: UnderscoreCharacters=%q UnderscoreDashCharacters=%q UnderscoreDashDotCharacters=%q", a, b, d)})
		return
	}
	type probe struct{ got, want, what string }
	m3s, ps := tally.NewSanitizer(m3.DefaultSanitizerOpts), tally.NewSanitizer(tprom.DefaultSanitizerOpts)
	in := "a-b:c.d e/f_G9"
	for _, p := range []probe{
		{m3s.Name(in), "a-b_c.d_e_f_G9", "M3 name"}, {m3s.Key(in), "a-b_c_d_e_f_G9", "M3 tag key"}, {m3s.Value(in), "a-b_c.d_e_f_G9", "M3 tag value"},
		{ps.Name(in), "a_b_c_d_e_f_G9", "Prometheus name"}, {ps.Key(in), "a_b_c_d_e_f_G9", "Prometheus tag key"}, {ps.Value(in), "a_b_c_d_e_f_G9", "Prometheus tag value"},
	} {
		if p.got != p.want {
			c.Violation("stock-sanitizer-allows-other-characters", map[string]interface{}{"why": fmt.Sprintf("%s: %q sanitized to %q, the stock options allow letters, digits and a fixed few punctuation characters: want %q", p.what, in, p.got, p.want)})
			return
		}
	}
	c.Event("stock-sanitizer-probes", 6)
}

// boundary-heavy inputs for one ValidCharacters option
func c06Inputs(r *mon.Rand, v mon.RefValid, rep rune, n int) []string {
	var edge []rune
	for _, rg := range v.Ranges {
		edge = append(edge, rg[0], rg[1], rg[0]-1, rg[1]+1, rg[0]+1, rg[1]-1)
	}
	for _, ch := range v.Chars {
		edge = append(edge, ch, ch+1, ch-1)
	}
	edge = append(edge, rep, 'a', 'z', 'A', 'Z', '0', '9', '_', '-', '.', 0x7f, 0x80, 0x7ff, 0x800, 0xffff, 0x10000, 0x10ffff, utf8.RuneError)
	out := make([]string, 0, n)
	for len(out) < n {
		var b []byte
		ln := r.Intn(12)
		switch r.Intn(10) {
		case 0:
			ln = 0
		case 1:
			ln = r.Range(100, 4096) // long
		}
		firstBad := -1
		if r.Bool() {
			firstBad = r.Intn(ln + 1)
		}
		for i := 0; i < ln; i++ {
			var piece string
			switch k := r.Intn(10); {
			case i == firstBad && r.Bool():
				piece = []string{"\xff", "\xc0", "\xe2\x82", "\xf0\x9f\x98", "\x80", "\xed\xa0\x80"}[r.Intn(6)]
			case k <= 4:
				e := edge[r.Intn(len(edge))]
				if e < 0 || e > 0x10ffff || (e >= 0xd800 && e <= 0xdfff) {
					e = 'q'
				}
				piece = string(e)
			case k <= 6:
				piece = string(rune('a' + r.Intn(26)))
			case k == 7:
				piece = string([]rune{'é', '中', '😀', 'ж'}[r.Intn(4)])
			case k == 8:
				piece = []string{"\xff", "\x80", "\xc3", "\xe4\xb8"}[r.Intn(4)]
			default:
				piece = string(rune(r.Range(0x20, 0x7e)))
			}
			b = append(b, piece...)
		}
		out = append(out, string(b))
	}
	return out
}

type c06Result struct {
	in, out string
	which   int
}

func c06Direct(c *mon.Ctx, r *mon.Rand) {
	sc := genSanCfg(r)
	real := tally.NewSanitizer(*sc.opts())
	fns := []func(string) string{real.Name, real.Key, real.Value}
	refs := []func(string) string{sc.name, sc.key, sc.value}
	valids := []mon.RefValid{sc.Name, sc.Key, sc.Value}
	names := []string{"Name", "Key", "Value"}
	inputs := [][]string{c06Inputs(r, sc.Name, sc.Rep, 40), c06Inputs(r, sc.Key, sc.Rep, 40), c06Inputs(r, sc.Value, sc.Rep, 40)}
	c.Distinct(mon.Hash64(fmt.Sprint(*sc)))

	check := func(which int, in, out string) {
		want := refs[which](in)
		if out != want {
			c.Violation("sanitize-differs-from-reference", map[string]interface{}{"fn": names[which], "options": sc, "input": in, "got": out, "want": want})
			return
		}
		if utf8.RuneCountInString(in) != utf8.RuneCountInString(out) {
			c.Violation("rune-count-changed", map[string]interface{}{"fn": names[which], "options": sc, "input": in, "got": out})
		}
		if !utf8.ValidString(out) {
			c.Violation("invalid-bytes-passed-through", map[string]interface{}{"fn": names[which], "options": sc, "input": in, "got": out})
		}
		for _, ru := range out {
			if ru != sc.Rep && !allowedRune(valids[which], ru) {
				c.Violation("disallowed-rune-in-output", map[string]interface{}{"fn": names[which], "options": sc, "input": in, "got": out, "rune": string(ru)})
				break
			}
		}
	}

	// sequential: reference equality, idempotence, determinism, identity on valid input
	for w := 0; w < 3; w++ {
		for _, in := range inputs[w] {
			c.Eval(1)
			var out string
			if c.Guard("panic-sanitize", func() interface{} { return map[string]interface{}{"input": in, "options": sc} }, func() { out = fns[w](in) }) {
				continue
			}
			check(w, in, out)
			if again := fns[w](in); again != out {
				c.Violation("non-deterministic", map[string]interface{}{"fn": names[w], "options": sc, "input": in, "first": out, "second": again})
			}
			if twice := fns[w](out); twice != out {
				c.Violation("not-idempotent", map[string]interface{}{"fn": names[w], "options": sc, "input": in, "once": out, "twice": twice})
			}
			if out == in {
				c.Class("input-already-valid", 1)
			} else {
				c.Class("input-changed", 1)
			}
			if !utf8.ValidString(in) {
				c.Class("input-invalid-utf8", 1)
			}
		}
	}

	// concurrent: 16 goroutines share the sanitizer (pooled buffers); each
	// verifies its own results, all retained results are re-verified at the end
	if r.Chance(1, 4) {
		c.Class("concurrent-rounds", 1)
		var wg sync.WaitGroup
		kept := make([][]c06Result, 16)
		for g := 0; g < 16; g++ {
			wg.Add(1)
			gr := r.Fork(uint64(100 + g))
			go func(g int) {
				defer wg.Done()
				for k := 0; k < 60; k++ {
					w := gr.Intn(3)
					in := inputs[w][gr.Intn(len(inputs[w]))]
					out := fns[w](in)
					kept[g] = append(kept[g], c06Result{in, out, w})
					if want := refs[w](in); out != want {
						c.Violation("sanitize-differs-from-reference(concurrent)", map[string]interface{}{"fn": names[w], "options": sc, "input": in, "got": out, "want": want})
					}
				}
			}(g)
		}
		wg.Wait()
		for g := range kept {
			for _, k := range kept[g] {
				c.Eval(1)
				if want := refs[k.which](k.in); k.out != want {
					c.Violation("retained-result-changed", map[string]interface{}{"fn": names[k.which], "options": sc, "input": k.in, "now": k.out, "want": want})
				}
			}
		}
	}
}

func allowedRune(v mon.RefValid, r rune) bool {
	for _, rg := range v.Ranges {
		if r >= rg[0] && r <= rg[1] {
			return true
		}
	}
	for _, ch := range v.Chars {
		if ch == r {
			return true
		}
	}
	return false
}

// c06Scope: every string a sanitizing scope hands to a reporter, including
// cardinality metrics, consists of allowed runes or the replacement.
func c06Scope(c *mon.Ctx, r *mon.Rand) {
	pool := newStrPool(r, true, true, true)
	rc := pool.root(r)
	withSan := !r.Chance(1, 5)
	if withSan {
		rc.San = genSanCfg(r)
	}
	prog := pool.prog(r, 4)
	cardTags := pool.tagMap(r, 2)
	c.Eval(1)
	cached := r.Bool()
	kind := "plain"
	opts := tally.ScopeOptions{Prefix: rc.Prefix, Separator: rc.Sep, Tags: copyTagMap(rc.Tags), SanitizeOptions: rc.San.opts(), CardinalityMetricsTags: cardTags}
	var prec *mon.PlainRec
	var crec *mon.CachedRec
	if cached {
		kind = "cached"
		crec = mon.NewCachedRec(true)
		opts.CachedReporter = crec
		// what the reporter says about its capabilities does not change what is sanitized
		crec.Caps = mon.Caps(r.Bool(), r.Bool())
	} else {
		prec = mon.NewPlainRec(true)
		opts.Reporter = prec
		prec.Caps = mon.Caps(r.Bool(), r.Bool())
	}
	reacquire := r.Bool()
	desc := map[string]interface{}{"root": rc, "program": prog, "cardinality_tags": cardTags, "reporter": kind, "close_and_derive_again": reacquire}
	var root tally.Scope
	// the full names the reference model expects (sanitized piece by piece,
	// joined with the sanitized separator)
	wantNames := map[string]bool{}
	traceIDs, _ := rc.trace(prog)
	if c.Guard("panic-scope/"+kind, func() interface{} { return desc }, func() {
		root, _ = vNewRoot(opts, 0, uint(r.Range(0, 4)))
		// the options struct belongs to the caller again (a configuration loader
		// re-uses it for the next scope): the scope keeps the rules it was given
		if so := opts.SanitizeOptions; so != nil {
			only := tally.ValidCharacters{Ranges: []tally.SanitizeRange{{'!', '!'}}}
			*so = tally.SanitizeOptions{NameCharacters: only, KeyCharacters: only, ValueCharacters: only, ReplacementCharacter: '!'}
		}
		recordOn := func(scopes []tally.Scope) {
			for i, s := range scopes {
				if i != 0 && i != len(scopes)-1 && r.Bool() {
					continue
				}
				m := pool.names[r.Intn(len(pool.names))]
				if r.Chance(1, 3) {
					m = rc.Sep + m // a name that begins with the separator is a name like any other
				}
				wantNames[rc.metricName(traceIDs[i], m)] = true
				wantNames[rc.metricName(traceIDs[i], m+"v")] = true
				s.Counter(m).Inc(1)
				s.Gauge(m).Update(2)
				s.Timer(m).Record(time.Millisecond)
				s.Histogram(m, nil).RecordDuration(time.Millisecond)
				s.Histogram(m+"v", tally.ValueBuckets{1}).RecordValue(1)
			}
		}
		given := prog.clone()
		scopes := given.apply(root)
		recordOn(scopes)
		// the maps belong to the caller again: it refills them with other (and
		// not necessarily valid) strings; what the scopes deliver must not change
		for _, st := range given {
			if !st.IsTag {
				continue
			}
			for k := range st.Tags {
				st.Tags[k] = "later \x01~\xff é value"
			}
			st.Tags["later key \x01~é"] = "x"
			st.Tags["laterkey"] = "\x7f |"
		}
		recordOn(scopes)
		// half of the runs: close the derived scopes and derive them again with
		// the same raw strings, before and/or after a report pass (the re-acquire
		// paths of the registry), and record again
		if reacquire {
			for round := 0; round < 2; round++ {
				if r.Bool() {
					tally.VerifReportPass(root)
				}
				for i := len(scopes) - 1; i >= 1; i-- {
					if cl, ok := scopes[i].(io.Closer); ok && scopes[i] != root && r.Chance(2, 3) {
						cl.Close()
					}
				}
				if r.Bool() {
					tally.VerifReportPass(root)
				}
				scopes = prog.clone().apply(root)
				recordOn(scopes)
			}
		}
		tally.VerifReportPass(root)
	}) {
		return
	}
	var log []mon.Event
	if cached {
		log, _, _ = crec.Snapshot()
	} else {
		log, _, _ = prec.Snapshot()
	}
	nstr := 0
	sawCard := false
	cardNames := map[string]bool{}
	for _, n := range []string{"tally.internal.counter_cardinality", "tally.internal.gauge_cardinality", "tally.internal.histogram_cardinality", "tally.internal.num_active_scopes"} {
		cardNames[rc.San.name(n)] = true
	}
	// raw strings the harness handed in, for the pass-through clause
	for _, ev := range log {
		switch ev.Kind {
		case mon.EvFlush, mon.EvClose, mon.EvMarker, mon.EvCaps:
			continue
		}
		isCard := cardNames[ev.Name]
		if isCard {
			sawCard = true
		}
		nstr += 1 + 2*len(ev.Tags)
		if !isCard && !contains(ev.Name, "tally") && !wantNames[ev.Name] {
			c.Violation("name-differs-from-model/"+kind, map[string]interface{}{"why": "the delivered metric name is not prefix + separator + name of any metric recorded on (each piece sanitized on its own)", "name": ev.Name, "expected_one_of": keysOf(wantNames), "event": ev.Kind.String(), "case": desc})
		}
		if rc.San == nil {
			continue
		}
		if w := firstBadRune(rc.San.Name, rc.San.Rep, ev.Name); w != "" {
			c.Violation("unsanitized-name/"+kind, map[string]interface{}{"why": "metric name contains " + w, "name": ev.Name, "event": ev.Kind.String(), "cardinality_metric": isCard, "case": desc})
		}
		for k, v := range ev.Tags {
			if w := firstBadRune(rc.San.Key, rc.San.Rep, k); w != "" {
				sig := "unsanitized-tag-key/"
				if isCard {
					sig = "unsanitized-cardinality-tag-key/"
				}
				c.Violation(sig+kind, map[string]interface{}{"why": "tag key contains " + w, "name": ev.Name, "key": k, "value": v, "case": desc})
			}
			if w := firstBadRune(rc.San.Value, rc.San.Rep, v); w != "" {
				sig := "unsanitized-tag-value/"
				if isCard {
					sig = "unsanitized-cardinality-tag-value/"
				}
				c.Violation(sig+kind, map[string]interface{}{"why": "tag value contains " + w, "name": ev.Name, "key": k, "value": v, "case": desc})
			}
		}
	}
	c.Event("delivered-strings-checked", int64(nstr))
	if sawCard {
		c.Class("scope-runs-with-cardinality-metrics", 1)
	}
	if rc.San != nil {
		c.Class("scope-runs-with-sanitizer", 1)
		c.Distinct(mon.Hash64(fmt.Sprint(*rc.San), fmt.Sprint(prog)))
	} else {
		// no options: byte-for-byte pass-through of what the harness gave
		c.Class("scope-runs-without-sanitizer", 1)
		ids, _ := rc.trace(prog)
		if collides(ids) {
			return
		}
		want := map[string]bool{}
		for _, id := range ids {
			want[id.key()] = true
		}
		for _, ev := range log {
			switch ev.Kind {
			case mon.EvCounter, mon.EvTimer, mon.EvAllocCounter, mon.EvAllocTimer:
				if contains(ev.Name, "tally.internal") {
					continue
				}
				// the tag set must be one of the reference identities' tag sets, byte for byte
				ok := false
				for _, id := range ids {
					if mon.TagsEqual(id.Tags, ev.Tags) {
						ok = true
					}
				}
				if !ok {
					c.Violation("not-passed-through/"+kind, map[string]interface{}{"why": "without sanitize options the delivered tags differ from the given ones", "name": ev.Name, "tags": ev.Tags, "case": desc})
				}
			}
		}
	}
}

func contains(s, sub string) bool {
	for i := 0; i+len(sub) <= len(s); i++ {
		if s[i:i+len(sub)] == sub {
			return true
		}
	}
	return false
}

// firstBadRune describes the first rune that is neither allowed nor the
// replacement (or an invalid byte), "" if none.
func firstBadRune(v mon.RefValid, rep rune, s string) string {
	for i := 0; i < len(s); {
		ru, w := utf8.DecodeRuneInString(s[i:])
		if ru == utf8.RuneError && w <= 1 {
			return fmt.Sprintf("an invalid byte 0x%02x at %d", s[i], i)
		}
		if ru != rep && !allowedRune(v, ru) {
			return fmt.Sprintf("the not-allowed rune %q at %d", ru, i)
		}
		i += w
	}
	return ""
}

func keysOf(m map[string]bool) []string {
	out := make([]string, 0, len(m))
	for k := range m {
		out = append(out, k)
	}
	sort.Strings(out)
	return out
}
