package main

import (
	"fmt"
	"math"
	"sort"
	"sync"
	"time"

	tally "github.com/uber-go/tally/v4"

	"verifharness/mon"
)

func init() { register("C03", runC03) }

func runC03(c *mon.Ctx) {
	if flagMode == "lifecycle" {
		c.Cases(func(i int, r *mon.Rand) { lifecycleCase(c, r, "C03") })
		return
	}
	c.Cases(func(i int, r *mon.Rand) { c03Case(c, i, r) })
}

type c03Spec struct {
	IsDur   bool            `json:"is_duration"`
	Form    string          `json:"form"` // given | nil-default | nil-rootdefault | empty
	Values  []float64       `json:"values,omitempty"`
	Durs    []time.Duration `json:"durations,omitempty"`
	Samples int             `json:"samples"`
}

func fstr(f float64) string { return fmt.Sprintf("%v(%#x)", f, math.Float64bits(f)) }

func c03Case(c *mon.Ctx, idx int, r *mon.Rand) {
	isDur := r.Bool()
	form := "given"
	switch r.Intn(12) {
	case 0:
		form = "nil-default"
	case 1:
		form = "nil-rootdefault"
	case 2:
		form = "empty"
	}
	var vspec []float64
	var dspec []time.Duration
	if isDur {
		dspec = r.DurationSpec(64)
	} else {
		vspec = r.ValueSpec(64)
	}
	if r.Chance(1, 10) {
		// bounds whose bit patterns add up to zero (0; x and -x): the set of the
		// other kind with the same bounds has the same identity
		k := float64(r.Range(1, 64)) / 4
		switch r.Intn(3) {
		case 0:
			vspec, dspec = []float64{0}, []time.Duration{0}
		case 1:
			vspec, dspec = []float64{-k, k}, []time.Duration{-time.Duration(k * float64(time.Second)), time.Duration(k * float64(time.Second))}
		default:
			vspec, dspec = []float64{-k, 0, k}, []time.Duration{-time.Duration(k * float64(time.Second)), 0, time.Duration(k * float64(time.Second))}
		}
		if isDur {
			vspec = nil
		} else {
			dspec = nil
		}
	}
	// what the histogram is created with, and what the effective spec is
	var arg tally.Buckets
	var rootDefault tally.Buckets
	effDur := isDur
	effV, effD := vspec, dspec
	switch form {
	case "given":
		if isDur {
			arg = tally.DurationBuckets(append([]time.Duration(nil), dspec...))
		} else {
			arg = tally.ValueBuckets(append([]float64(nil), vspec...))
		}
	case "nil-default":
		arg = nil
		effDur = true
		effV = nil
		effD = []time.Duration{0, 10 * time.Millisecond, 25 * time.Millisecond, 50 * time.Millisecond, 75 * time.Millisecond,
			100 * time.Millisecond, 200 * time.Millisecond, 300 * time.Millisecond, 400 * time.Millisecond, 500 * time.Millisecond,
			600 * time.Millisecond, 800 * time.Millisecond, time.Second, 2 * time.Second, 5 * time.Second}
	case "nil-rootdefault":
		arg = nil
		if isDur {
			rootDefault = tally.DurationBuckets(append([]time.Duration(nil), dspec...))
		} else {
			rootDefault = tally.ValueBuckets(append([]float64(nil), vspec...))
		}
	case "empty":
		if isDur {
			arg = tally.DurationBuckets{}
			effD = nil
		} else {
			arg = tally.ValueBuckets{}
			effV = nil
		}
	}

	var vs []float64
	var ds []time.Duration
	if effDur {
		ds = r.SamplesForDurations(effD, 12)
	} else {
		vs = r.SamplesForValues(effV, 12)
	}
	desc := c03Spec{IsDur: effDur, Form: form, Values: effV, Durs: effD, Samples: len(vs) + len(ds)}
	c.Eval(1)
	if c.WantSample() {
		c.Sample(map[string]interface{}{"spec": desc, "first_samples": fmt.Sprint(firstN(vs, 6), firstND(ds, 6))})
	}

	// reference: expected count per upper bound, number of NaNs
	nan := 0
	expV := map[float64]int64{}
	expD := map[time.Duration]int64{}
	for _, x := range vs {
		if hi, ok := mon.RefUpperV(effV, x); ok {
			expV[hi]++
		} else {
			nan++
		}
		if math.IsInf(x, 0) {
			c.Class("inf-samples", 1)
		}
	}
	for _, x := range ds {
		expD[mon.RefUpperD(effD, x)]++
	}
	if nan > 0 {
		c.Class("nan-samples", int64(nan))
	}
	c.Class("form-"+form, 1)
	if hasDupV(effV) || hasDupD(effD) {
		c.Class("spec-with-duplicates", 1)
	}
	if !sort.Float64sAreSorted(effV) || !sort.SliceIsSorted(effD, func(i, j int) bool { return effD[i] < effD[j] }) {
		c.Class("spec-unsorted", 1)
	}
	c.Distinct(mon.Hash64(fmt.Sprint(effDur, form, effV, effD)))

	name := "h" + r.Ident(6)
	// Twins: other bucket sets that collide with this spec in the root-wide
	// bucket cache (same kind and length with an equal element sum; the same
	// bit patterns in the other kind; a permutation with one element changed).
	// Created under the same root before (2/3) or after (1/3) the histogram
	// under test, which must keep using its own bounds.
	var twins []tally.Buckets
	twinsFirst := r.Intn(3) != 0
	if form == "given" && r.Intn(3) != 0 {
		twins = c03Twins(r, effDur, effV, effD)
		if len(twins) > 0 {
			c.Class("cases-with-colliding-twin-histograms", 1)
		}
	}
	concTwins := len(twins) > 0 && r.Chance(1, 3)
	if concTwins {
		c.Class("cases-with-twins-created-concurrently", 1)
	}
	record := func(h tally.Histogram) {
		// wrong-type samples first and in the middle: must change nothing
		if effDur {
			h.RecordValue(1)
			h.RecordValue(math.Inf(1))
			h.RecordValue(math.NaN())
			for _, x := range ds {
				h.RecordDuration(x)
			}
			h.RecordValue(0)
		} else {
			h.RecordDuration(time.Second)
			h.RecordDuration(math.MaxInt64)
			// every way a duration can reach a value histogram changes nothing
			h.Start().Stop()
			if sr, ok := h.(tally.StopwatchRecorder); ok {
				sr.RecordStopwatch(time.Now().Add(-time.Second))
				tally.NewStopwatch(time.Now().Add(time.Hour), sr).Stop()
			}
			for _, x := range vs {
				h.RecordValue(x)
			}
			h.RecordDuration(0)
		}
	}
	detail := func() interface{} { return desc }

	for _, kind := range []string{"plain", "cached", "test"} {
		var root tally.Scope
		var prec *mon.PlainRec
		var crec *mon.CachedRec
		var ts tally.TestScope
		opts := tally.ScopeOptions{DefaultBuckets: rootDefault, OmitCardinalityMetrics: true}
		switch kind {
		case "plain":
			prec = mon.NewPlainRec(true)
			opts.Reporter = prec
			root, _ = vNewRoot(opts, 0, uint(r.Range(0, 4)))
		case "cached":
			crec = mon.NewCachedRec(true)
			opts.CachedReporter = crec
			root, _ = vNewRoot(opts, 0, uint(r.Range(0, 4)))
		case "test":
			if form == "nil-rootdefault" {
				continue // NewTestScope has no option for default buckets
			}
			ts = tally.NewTestScope("", nil)
			root = ts
		}
		var h tally.Histogram
		mkTwins := func() {
			for ti, tw := range twins {
				var th tally.Histogram
				if ti%2 == 0 {
					th = root.SubScope("twin").Histogram(fmt.Sprintf("tw%d", ti), tw)
				} else {
					th = root.Tagged(map[string]string{"twin": "1"}).Histogram(fmt.Sprintf("tw%d", ti), tw)
				}
				th.RecordValue(1)
				th.RecordDuration(1)
			}
		}
		if c.Guard("panic-create", detail, func() {
			if concTwins {
				// the histogram under test and its twins make their first use at
				// the same moment, from different goroutines
				var wg, start sync.WaitGroup
				start.Add(1)
				for ti, tw := range twins {
					wg.Add(1)
					go func(ti int, tw tally.Buckets) {
						defer wg.Done()
						defer func() { recover() }()
						start.Wait()
						th := root.SubScope(fmt.Sprintf("ctw%d", ti)).Histogram("tw", tw)
						th.RecordValue(1)
						th.RecordDuration(1)
					}(ti, tw)
				}
				start.Done()
				h = root.Histogram(name, arg)
				wg.Wait()
				return
			}
			if twinsFirst {
				mkTwins()
			}
			h = root.Histogram(name, arg)
			if !twinsFirst {
				mkTwins()
			}
		}) {
			continue
		}
		// the slice handed to Histogram() must be left as it was ...
		checkCallerSlice := func(when string) {
			switch a := arg.(type) {
			case tally.ValueBuckets:
				if !sameBitsV([]float64(a), effV) && form == "given" {
					c.Violation("caller-slice-modified/"+kind, map[string]interface{}{"why": fmt.Sprintf("%s: the caller's bucket slice was changed: now %v", when, a), "spec": desc})
				}
			case tally.DurationBuckets:
				if fmt.Sprint([]time.Duration(a)) != fmt.Sprint(effD) && form == "given" {
					c.Violation("caller-slice-modified/"+kind, map[string]interface{}{"why": fmt.Sprintf("%s: the caller's bucket slice was changed: now %v", when, a), "spec": desc})
				}
			}
		}
		checkCallerSlice("after Histogram()")
		// ... and belongs to the caller: in half of the cases it is overwritten
		// now (the histogram must keep the bounds it was created with)
		vandalised := false
		if form == "given" && r.Bool() {
			vandalised = true
			switch a := arg.(type) {
			case tally.ValueBuckets:
				for i := range a {
					a[i] = float64(i) + 0.5
				}
			case tally.DurationBuckets:
				for i := range a {
					a[i] = time.Duration(i) + 7
				}
			}
			c.Class("cases-with-caller-slice-overwritten-after-creation", 1)
		}
		rounds := 1 + r.Intn(2)
		for k := 0; k < rounds; k++ {
			if c.Guard("panic-record", detail, func() { record(h) }) {
				return
			}
			if kind != "test" {
				tally.VerifReportPass(root)
			}
		}
		mult := int64(rounds)
		if !vandalised {
			checkCallerSlice("after recording and reporting")
		} else if isDur {
			arg = tally.DurationBuckets(append([]time.Duration(nil), dspec...)) // fresh slice for the next reporter kind
		} else {
			arg = tally.ValueBuckets(append([]float64(nil), vspec...))
		}
		var gotV = map[float64]int64{}
		var gotD = map[time.Duration]int64{}
		bad := func(sig string, why string, extra interface{}) {
			c.Violation(sig+"/"+kind, map[string]interface{}{"reporter": kind, "why": why, "spec": desc, "extra": extra})
		}
		switch kind {
		case "plain", "cached":
			var log []mon.Event
			if prec != nil {
				log, _, _ = prec.Snapshot()
			} else {
				log, _, _ = crec.Snapshot()
			}
			log = eventsNamed(log, name)
			pairsV := mon.RefPairsV(effV)
			pairsD := mon.RefPairsD(effD)
			var allocV []mon.PairV
			var allocD []mon.PairD
			for _, ev := range log {
				switch ev.Kind {
				case mon.EvBucketV:
					allocV = append(allocV, mon.PairV{Lo: ev.Lo, Hi: ev.Hi})
				case mon.EvBucketD:
					allocD = append(allocD, mon.PairD{Lo: ev.LoD, Hi: ev.HiD})
				case mon.EvHistV:
					c.Event("hist-value-deliveries", 1)
					if effDur {
						bad("wrong-type-delivery", "value samples delivered for a duration histogram", ev.I)
						continue
					}
					if !memberV(pairsV, ev.Lo, ev.Hi) {
						bad("bucket-not-in-tiling", fmt.Sprintf("delivered value bucket (%s,%s] is not a pair of the sorted spec", fstr(ev.Lo), fstr(ev.Hi)), nil)
					}
					if ev.I <= 0 {
						bad("nonpositive-samples", fmt.Sprintf("samples=%d", ev.I), nil)
					}
					gotV[ev.Hi] += ev.I
					if prec != nil && !bucketsSameV(ev.Spec, form, effV) {
						bad("buckets-arg-differs", fmt.Sprintf("buckets argument %v differs from the spec the histogram was created with", ev.Spec), nil)
					}
				case mon.EvHistD:
					c.Event("hist-duration-deliveries", 1)
					if !effDur {
						bad("wrong-type-delivery", "duration samples delivered for a value histogram", ev.I)
						continue
					}
					if !memberD(pairsD, ev.LoD, ev.HiD) {
						bad("bucket-not-in-tiling", fmt.Sprintf("delivered duration bucket (%d,%d] is not a pair of the sorted spec", ev.LoD, ev.HiD), nil)
					}
					if ev.I <= 0 {
						bad("nonpositive-samples", fmt.Sprintf("samples=%d", ev.I), nil)
					}
					gotD[ev.HiD] += ev.I
				}
			}
			if kind == "cached" {
				// the allocation calls enumerate all buckets: they must tile
				if effDur {
					c.Event("bucket-allocations", int64(len(allocD)))
					if len(allocD) != len(pairsD) {
						bad("tiling", fmt.Sprintf("allocated %d duration buckets, reference has %d", len(allocD), len(pairsD)), fmt.Sprint(allocD))
					} else {
						for i := range allocD {
							if allocD[i] != pairsD[i] {
								bad("tiling", fmt.Sprintf("bucket %d is (%d,%d], reference (%d,%d]", i, allocD[i].Lo, allocD[i].Hi, pairsD[i].Lo, pairsD[i].Hi), nil)
								break
							}
						}
					}
					if len(allocV) != 0 {
						bad("wrong-type-delivery", "value buckets allocated for a duration histogram", nil)
					}
				} else {
					c.Event("bucket-allocations", int64(len(allocV)))
					if len(allocV) != len(pairsV) {
						bad("tiling", fmt.Sprintf("allocated %d value buckets, reference has %d", len(allocV), len(pairsV)), fmt.Sprint(allocV))
					} else {
						for i := range allocV {
							if allocV[i] != pairsV[i] {
								bad("tiling", fmt.Sprintf("bucket %d is (%s,%s], reference (%s,%s]", i, fstr(allocV[i].Lo), fstr(allocV[i].Hi), fstr(pairsV[i].Lo), fstr(pairsV[i].Hi)), nil)
								break
							}
						}
					}
					if len(allocD) != 0 {
						bad("wrong-type-delivery", "duration buckets allocated for a value histogram", nil)
					}
				}
			}
		case "test":
			snap := ts.Snapshot()
			var hs tally.HistogramSnapshot
			for _, x := range snap.Histograms() {
				if x.Name() == name {
					hs = x
				}
			}
			if hs == nil {
				bad("snapshot-missing", "histogram missing from snapshot", nil)
				continue
			}
			if effDur {
				if hs.Values() != nil && len(hs.Values()) > 0 {
					bad("wrong-type-delivery", "duration histogram has value snapshot", nil)
				}
				for u, n := range hs.Durations() {
					gotD[u] = n
				}
				// every bucket upper bound must be a key
				for _, p := range mon.RefPairsD(effD) {
					if _, ok := hs.Durations()[p.Hi]; !ok {
						bad("snapshot-bound-missing", fmt.Sprintf("upper bound %d absent from snapshot", p.Hi), nil)
					}
				}
			} else {
				for u, n := range hs.Values() {
					gotV[u] = n
				}
				for _, p := range mon.RefPairsV(effV) {
					if _, ok := hs.Values()[p.Hi]; !ok {
						bad("snapshot-bound-missing", fmt.Sprintf("upper bound %s absent from snapshot", fstr(p.Hi)), nil)
					}
				}
			}
		}

		if kind != "test" {
			var log []mon.Event
			if prec != nil {
				log, _, _ = prec.Snapshot()
			} else {
				log, _, _ = crec.Snapshot()
			}
			checkHistPairs(c, kind, log, histExpect{Name: name, IsDur: effDur, V: effV, D: effD, SamplesV: vs, SamplesD: ds, Mult: mult}, desc)
		}
		// counts: per upper bound, delivered == expected; NaNs may add at most one each
		if effDur {
			for u, n := range expD {
				if gotD[u] != n*mult {
					bad("wrong-bucket", fmt.Sprintf("upper bound %d: delivered %d samples, reference %d", u, gotD[u], n*mult), fmt.Sprint(gotD))
				}
			}
			for u, n := range gotD {
				if _, ok := expD[u]; !ok && n != 0 {
					bad("wrong-bucket", fmt.Sprintf("upper bound %d: delivered %d samples, reference 0", u, n), nil)
				}
			}
		} else {
			var extra int64
			for u, n := range expV {
				g := gotV[u]
				if g < n*mult {
					bad("wrong-bucket", fmt.Sprintf("upper bound %s: delivered %d samples, reference %d", fstr(u), g, n*mult), fmt.Sprint(gotV))
				}
				extra += g - n*mult
			}
			for u, n := range gotV {
				if _, ok := expV[u]; !ok {
					extra += n
				}
			}
			if extra < 0 || extra > int64(nan)*mult {
				bad("wrong-bucket", fmt.Sprintf("%d samples beyond the reference counts with %d NaNs recorded", extra, int64(nan)*mult), fmt.Sprint(gotV))
			}
		}
	}
}

func firstN(x []float64, n int) []float64 {
	if len(x) > n {
		return x[:n]
	}
	return x
}
func firstND(x []time.Duration, n int) []time.Duration {
	if len(x) > n {
		return x[:n]
	}
	return x
}

func memberV(p []mon.PairV, lo, hi float64) bool {
	for _, q := range p {
		if q.Lo == lo && q.Hi == hi {
			return true
		}
	}
	return false
}
func memberD(p []mon.PairD, lo, hi time.Duration) bool {
	for _, q := range p {
		if q.Lo == lo && q.Hi == hi {
			return true
		}
	}
	return false
}
func hasDupV(s []float64) bool {
	m := map[float64]bool{}
	for _, x := range s {
		if m[x] {
			return true
		}
		m[x] = true
	}
	return false
}
func hasDupD(s []time.Duration) bool {
	m := map[time.Duration]bool{}
	for _, x := range s {
		if m[x] {
			return true
		}
		m[x] = true
	}
	return false
}

// bucketsSameV: the buckets value handed to a plain reporter must be the spec
// the histogram was created with (element-wise, in the caller's order); eff
// is the harness's pristine copy.
func bucketsSameV(got tally.Buckets, form string, eff []float64) bool {
	if form == "nil-default" {
		return true // library default, not compared here
	}
	g, ok := got.(tally.ValueBuckets)
	if !ok {
		return false
	}
	if len(g) != len(eff) {
		return false
	}
	for i := range g {
		if math.Float64bits(g[i]) != math.Float64bits(eff[i]) {
			return false
		}
	}
	return true
}

func eventsNamed(log []mon.Event, name string) []mon.Event {
	out := log[:0:0]
	for _, e := range log {
		if e.Name == name {
			out = append(out, e)
		}
	}
	return out
}

// c03Twins derives bucket sets that differ from the given spec but have the
// same additive identity.
func c03Twins(r *mon.Rand, isDur bool, v []float64, d []time.Duration) []tally.Buckets {
	var out []tally.Buckets
	// the same bounds expressed in the other kind (seconds <-> durations)
	if isDur && len(d) >= 1 && len(d) <= 4 {
		out = append(out, tally.ValueBuckets(tally.DurationBuckets(d).AsValues()))
	} else if !isDur && len(v) >= 1 && len(v) <= 4 {
		out = append(out, tally.DurationBuckets(tally.ValueBuckets(v).AsDurations()))
	}
	// the same set extended by bounds that add nothing to the additive identity
	// (a zero value bound; a duration and its negative): a longer set of which
	// the spec is a prefix
	if r.Bool() {
		if isDur && len(d) >= 1 {
			x := time.Duration(r.Range(1, 1000000))
			out = append(out, tally.DurationBuckets(append(append([]time.Duration(nil), d...), x, -x)))
		} else if !isDur && len(v) >= 1 {
			out = append(out, tally.ValueBuckets(append(append([]float64(nil), v...), 0)))
		}
	}
	if isDur {
		if len(d) >= 2 {
			for try := 0; try < 4 && len(out) < 2; try++ {
				i, j := r.Intn(len(d)), r.Intn(len(d))
				if i == j {
					continue
				}
				delta := time.Duration(r.Range(1, 1000))
				if r.Bool() {
					delta = time.Duration(r.U64() >> uint(2+r.Intn(60)))
				}
				a, b := d[i]+delta, d[j]-delta
				if delta <= 0 || a < d[i] || b > d[j] || (a == d[j] && b == d[i]) {
					continue
				}
				t := append([]time.Duration(nil), d...)
				t[i], t[j] = a, b
				out = append(out, tally.DurationBuckets(t))
			}
		}
		if len(d) >= 1 {
			t := make([]float64, len(d))
			ok := true
			for i, x := range d {
				t[i] = math.Float64frombits(uint64(x))
				if math.IsNaN(t[i]) || math.IsInf(t[i], 0) {
					ok = false
				}
			}
			if ok {
				out = append(out, tally.ValueBuckets(t))
			}
		}
		return out
	}
	if len(v) >= 2 {
		for try := 0; try < 4 && len(out) < 2; try++ {
			i, j := r.Intn(len(v)), r.Intn(len(v))
			if i == j {
				continue
			}
			delta := uint64(r.Range(1, 1<<20)) << uint(r.Intn(32))
			bi, bj := math.Float64bits(v[i]), math.Float64bits(v[j])
			a, b := math.Float64frombits(bi+delta), math.Float64frombits(bj-delta)
			if bi+delta < bi || bj-delta > bj || math.IsNaN(a) || math.IsNaN(b) || math.IsInf(a, 0) || math.IsInf(b, 0) {
				continue
			}
			if bi+delta == bj && bj-delta == bi {
				continue
			}
			t := append([]float64(nil), v...)
			t[i], t[j] = a, b
			out = append(out, tally.ValueBuckets(t))
		}
	}
	if len(v) >= 1 {
		t := make([]time.Duration, len(v))
		for i, x := range v {
			t[i] = time.Duration(math.Float64bits(x))
		}
		out = append(out, tally.DurationBuckets(t))
	}
	return out
}
