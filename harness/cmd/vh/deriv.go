package main

import (
	"sort"
	"strings"

	tally "github.com/uber-go/tally/v4"
	"github.com/uber-go/tally/v4/m3"
	tprom "github.com/uber-go/tally/v4/prometheus"

	"verifharness/mon"
)

// Derivation programs: sequences of SubScope(name)/Tagged(map) applied to a
// root, with the reference model of the resulting identity.

type sanCfg struct {
	Name  mon.RefValid `json:"name"`
	Key   mon.RefValid `json:"key"`
	Value mon.RefValid `json:"value"`
	Rep   rune         `json:"rep"`
}

func toValid(v mon.RefValid) tally.ValidCharacters {
	var out tally.ValidCharacters
	for _, r := range v.Ranges {
		out.Ranges = append(out.Ranges, tally.SanitizeRange{r[0], r[1]})
	}
	out.Characters = append(out.Characters, v.Chars...)
	return out
}

func (s *sanCfg) opts() *tally.SanitizeOptions {
	if s == nil {
		return nil
	}
	o := &tally.SanitizeOptions{
		NameCharacters:       toValid(s.Name),
		KeyCharacters:        toValid(s.Key),
		ValueCharacters:      toValid(s.Value),
		ReplacementCharacter: s.Rep,
	}
	// The three character lists are handed over as adjacent windows of one
	// backing array with spare capacity behind each (callers build option
	// structs from shared slices): an append to one of them by the library
	// would overwrite its neighbour.
	n, k, v := o.NameCharacters.Characters, o.KeyCharacters.Characters, o.ValueCharacters.Characters
	all := make([]rune, 0, len(n)+len(k)+len(v)+4)
	all = append(append(append(all, n...), k...), v...)
	o.NameCharacters.Characters = all[0:len(n)]
	o.KeyCharacters.Characters = all[len(n) : len(n)+len(k)]
	o.ValueCharacters.Characters = all[len(n)+len(k) : len(n)+len(k)+len(v)]
	return o
}

func (s *sanCfg) name(x string) string {
	if s == nil {
		return x
	}
	return mon.RefSanitize(s.Name, s.Rep, x)
}
func (s *sanCfg) key(x string) string {
	if s == nil {
		return x
	}
	return mon.RefSanitize(s.Key, s.Rep, x)
}
func (s *sanCfg) value(x string) string {
	if s == nil {
		return x
	}
	return mon.RefSanitize(s.Value, s.Rep, x)
}

// tags sanitizes a map; ambiguous reports two input keys mapping to one.
func (s *sanCfg) tags(m map[string]string) (out map[string]string, ambiguous bool) {
	out = make(map[string]string, len(m))
	for k, v := range m {
		sk := s.key(k)
		if _, dup := out[sk]; dup {
			ambiguous = true
		}
		out[sk] = s.value(v)
	}
	return out, ambiguous
}

type rootCfg struct {
	Prefix string            `json:"prefix"`
	Sep    string            `json:"sep"`
	Tags   map[string]string `json:"tags"`
	San    *sanCfg           `json:"sanitizer,omitempty"`
}

type dstep struct {
	Sub   string            `json:"sub,omitempty"`
	IsTag bool              `json:"is_tag"`
	Tags  map[string]string `json:"tags,omitempty"`
}

type dprog []dstep

// ident is the reference identity of a scope.
type ident struct {
	Prefix string
	Tags   map[string]string
}

func (id ident) key() string { return mon.IdentKey(id.Prefix, id.Tags) }

// canonical renders the documented registry key format:
// prefix '+' then sorted k=v joined by ','.
func (id ident) canonical() string {
	var sb strings.Builder
	if id.Prefix != "" {
		sb.WriteString(id.Prefix)
		sb.WriteByte('+')
	}
	keys := make([]string, 0, len(id.Tags))
	for k := range id.Tags {
		keys = append(keys, k)
	}
	sort.Strings(keys)
	for i, k := range keys {
		if i > 0 {
			sb.WriteByte(',')
		}
		sb.WriteString(k)
		sb.WriteByte('=')
		sb.WriteString(id.Tags[k])
	}
	return sb.String()
}

func (id ident) hasDelim() bool {
	if strings.ContainsAny(id.Prefix, ",=+") {
		return true
	}
	for k, v := range id.Tags {
		if strings.ContainsAny(k, ",=+") || strings.ContainsAny(v, ",=+") {
			return true
		}
	}
	return false
}

func (rc rootCfg) sep() string {
	s := rc.Sep
	if s == "" {
		s = "."
	}
	return rc.San.name(s)
}

// rootIdent is the reference identity of the root; ambiguous if two root tag
// keys sanitize to the same key.
func (rc rootCfg) rootIdent() (ident, bool) {
	t, amb := rc.San.tags(rc.Tags)
	return ident{Prefix: rc.San.name(rc.Prefix), Tags: t}, amb
}

// trace returns the identities of the root and of every intermediate scope.
func (rc rootCfg) trace(p dprog) (ids []ident, ambiguous bool) {
	cur, amb := rc.rootIdent()
	ambiguous = amb
	ids = append(ids, cur)
	sep := rc.sep()
	for _, st := range p {
		next := ident{Prefix: cur.Prefix, Tags: cur.Tags}
		if st.IsTag {
			t, a := rc.San.tags(st.Tags)
			if a {
				ambiguous = true
			}
			next.Tags = mon.RefOverlay(cur.Tags, t)
		} else {
			next.Prefix = mon.RefName(cur.Prefix, sep, rc.San.name(st.Sub))
		}
		ids = append(ids, next)
		cur = next
	}
	return ids, ambiguous
}

// metricName is the reference full name of a metric on a scope.
func (rc rootCfg) metricName(id ident, metric string) string {
	return mon.RefName(id.Prefix, rc.sep(), rc.San.name(metric))
}

// apply runs the program on a real scope and returns every intermediate
// scope (index 0 = root).
func (p dprog) apply(root tally.Scope) []tally.Scope {
	out := []tally.Scope{root}
	cur := root
	for _, st := range p {
		if st.IsTag {
			cur = cur.Tagged(st.Tags)
		} else {
			cur = cur.SubScope(st.Sub)
		}
		out = append(out, cur)
	}
	return out
}

// applyReusing is apply for a caller that owns one map object and refills it
// for every Tagged call (the library must have copied what it needs).
func (p dprog) applyReusing(root tally.Scope, buf map[string]string) []tally.Scope {
	out := []tally.Scope{root}
	cur := root
	for _, st := range p {
		if st.IsTag {
			for k := range buf {
				delete(buf, k)
			}
			for k, v := range st.Tags {
				buf[k] = v
			}
			cur = cur.Tagged(buf)
		} else {
			cur = cur.SubScope(st.Sub)
		}
		out = append(out, cur)
	}
	for k := range buf {
		delete(buf, k)
	}
	buf["left-over-in-the-callers-map"] = "x"
	return out
}

// collides reports whether two distinct identities of the list share a
// canonical key (only possible with delimiter characters inside strings).
func collides(ids []ident) bool {
	seen := map[string]string{}
	for _, id := range ids {
		c, k := id.canonical(), id.key()
		if prev, ok := seen[c]; ok && prev != k {
			return true
		}
		seen[c] = k
	}
	return false
}

// ---------------------------------------------------------------------------
// Generators.

type strPool struct {
	names []string
	keys  []string
	vals  []string
}

// newStrPool draws a small pool per case so that keys repeat across levels.
func newStrPool(r *mon.Rand, multi, invalid, delims bool) *strPool {
	p := &strPool{}
	gen := func(maxLen int) string {
		switch r.Intn(8) {
		case 0:
			return ""
		case 1, 2:
			return r.Ident(6)
		case 3:
			if delims {
				return r.Pick("a=b", "a,b", "x+y", "=", ",", "+", "1,b=2", "k=v,", "+a")
			}
			return r.Ident(3)
		default:
			s := r.Str(maxLen, multi, invalid)
			if !delims {
				s = strings.Map(func(c rune) rune {
					if c == ',' || c == '=' || c == '+' {
						return 'q'
					}
					return c
				}, s)
			}
			return s
		}
	}
	for i := 0; i < 5; i++ {
		p.names = append(p.names, gen(10))
	}
	for i := 0; i < 4; i++ {
		p.keys = append(p.keys, gen(6))
	}
	for i := 0; i < 4; i++ {
		p.vals = append(p.vals, gen(8))
	}
	return p
}

func (p *strPool) tagMap(r *mon.Rand, max int) map[string]string {
	n := r.Intn(max + 1)
	m := make(map[string]string, n)
	for i := 0; i < n; i++ {
		m[p.keys[r.Intn(len(p.keys))]] = p.vals[r.Intn(len(p.vals))]
	}
	return m
}

func (p *strPool) prog(r *mon.Rand, maxDepth int) dprog {
	d := r.Intn(maxDepth + 1)
	out := make(dprog, 0, d)
	for i := 0; i < d; i++ {
		if r.Bool() {
			out = append(out, dstep{IsTag: true, Tags: p.tagMap(r, 4)})
		} else {
			out = append(out, dstep{Sub: p.names[r.Intn(len(p.names))]})
		}
	}
	return out
}

func (p *strPool) root(r *mon.Rand) rootCfg {
	rc := rootCfg{}
	switch r.Intn(3) {
	case 1:
		rc.Prefix = p.names[r.Intn(len(p.names))]
	case 2:
		rc.Prefix = p.names[r.Intn(len(p.names))] + "." + r.Ident(20)
	}
	rc.Sep = r.Pick(".", "_", "", "·", "::", "-")
	if rc.Prefix != "" && r.Chance(1, 6) {
		rc.Prefix += rc.sep() // a prefix that ends with the separator is passed on as it is
	}
	rc.Tags = p.tagMap(r, 3)
	return rc
}

func copyTagMap(m map[string]string) map[string]string {
	if m == nil {
		return nil
	}
	o := make(map[string]string, len(m))
	for k, v := range m {
		o[k] = v
	}
	return o
}

func (p dprog) clone() dprog {
	o := make(dprog, len(p))
	for i, st := range p {
		o[i] = dstep{Sub: st.Sub, IsTag: st.IsTag, Tags: copyTagMap(st.Tags)}
	}
	return o
}

// genSanCfg draws sanitizer options: 0-4 ranges incl. empty, single-rune,
// reversed, overlapping, astral; 0-6 extra characters; replacement allowed or
// not, possibly multi-byte.
func genValid(r *mon.Rand) mon.RefValid {
	var v mon.RefValid
	nr := r.Intn(5)
	for i := 0; i < nr; i++ {
		switch r.Intn(8) {
		case 0:
			v.Ranges = append(v.Ranges, [2]rune{'a', 'z'})
		case 1:
			v.Ranges = append(v.Ranges, [2]rune{'A', 'Z'}, [2]rune{'0', '9'})
		case 2:
			c := rune(r.Range(0x20, 0x7e))
			v.Ranges = append(v.Ranges, [2]rune{c, c}) // single rune
		case 3:
			a, b := rune(r.Range(0x20, 0x7e)), rune(r.Range(0x20, 0x7e))
			v.Ranges = append(v.Ranges, [2]rune{a, b}) // possibly reversed = empty
		case 4:
			if r.Bool() {
				v.Ranges = append(v.Ranges, [2]rune{0x80, 0x7ff})
			} else {
				v.Ranges = append(v.Ranges, [2]rune{0x80, 0x10ffff}) // includes U+FFFD
			}
		case 5:
			v.Ranges = append(v.Ranges, [2]rune{0x10000, 0x10ffff}) // astral
		case 6:
			a := rune(r.Range(0x20, 0x3000))
			v.Ranges = append(v.Ranges, [2]rune{a, a + rune(r.Range(0, 300))})
		default:
			v.Ranges = append(v.Ranges, [2]rune{'a', 'm'}, [2]rune{'h', 'z'}) // overlapping
		}
	}
	nc := r.Intn(7)
	// (the last four are no code points that can be encoded - half of a
	// surrogate pair, a negative value, one beyond U+10FFFF: they match nothing)
	pool := []rune{'_', '-', '.', ':', ' ', 'é', '中', '😀', '=', ',', '+', '/', 'z', 'A', '9', 0, '\ufffd', 0xD800, 0xDFFF, -1, 0x110000}
	for i := 0; i < nc; i++ {
		v.Chars = append(v.Chars, pool[r.Intn(len(pool))])
	}
	return v
}

// sanCfgFromOptions mirrors real options in the reference model.
func sanCfgFromOptions(o tally.SanitizeOptions) *sanCfg {
	conv := func(v tally.ValidCharacters) mon.RefValid {
		var out mon.RefValid
		for _, rg := range v.Ranges {
			out.Ranges = append(out.Ranges, [2]rune{rg[0], rg[1]})
		}
		out.Chars = append(out.Chars, v.Characters...)
		return out
	}
	return &sanCfg{Name: conv(o.NameCharacters), Key: conv(o.KeyCharacters), Value: conv(o.ValueCharacters), Rep: o.ReplacementCharacter}
}

func genSanCfg(r *mon.Rand) *sanCfg {
	switch r.Intn(10) {
	case 0:
		return sanCfgFromOptions(m3.DefaultSanitizerOpts) // the options the M3 configuration installs
	case 1:
		return sanCfgFromOptions(tprom.DefaultSanitizerOpts) // the options the Prometheus configuration installs
	}
	s := &sanCfg{Name: genValid(r), Key: genValid(r), Value: genValid(r)}
	if r.Chance(1, 4) {
		// the stock configuration used by the M3/Prometheus defaults
		al := mon.RefValid{Ranges: [][2]rune{{'a', 'z'}, {'A', 'Z'}, {'0', '9'}}, Chars: []rune{'-', '_'}}
		s.Name, s.Key, s.Value = al, al, al
		if r.Bool() {
			s.Name.Chars = append(s.Name.Chars, '.')
		}
	}
	s.Rep = []rune{'_', '_', '_', '-', 'x', '?', 'é', '中', '😀', ' ', 0}[r.Intn(11)] // (0: the replacement character left unset is the NUL character)
	return s
}
