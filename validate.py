#!/usr/bin/env python3
"""Validates MANIFEST.json and evidence/*.json against the schemas (needs the tooling venv: python3-vt validate.py)."""
import glob
import json
import jsonschema
m = json.load(open('/verif/MANIFEST.json'))
jsonschema.validate(m, json.load(open('/root/.vp/MANIFEST.schema.json')))
es = json.load(open('/root/.vp/EVIDENCE.schema.json'))
n = 0
for f in sorted(glob.glob('/verif/evidence/*.json')):
    jsonschema.validate(json.load(open(f)), es)
    n += 1
print("MANIFEST valid; %d evidence files valid" % n)
