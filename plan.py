"""Per-property run plans of ./check: phases (child batches) per tier.

A phase = nbatch child processes, each running n cases (or runs) of the given
mode of `vh <ID>`; race=True uses the -race build. Case counts are fixed per
tier (never time budgets); all choices derive from VERIF_SEED.
"""


def ph(name, nbatch, n, mode="", race=False, timeout=900, **kw):
    d = dict(name=name, nbatch=nbatch, n=n, mode=mode, race=race, timeout=timeout)
    d.update(kw)
    return d


PLAN = {
    "C03": {
        "level": "exploration",
        "level_text": "Reference-model monitor over generated bucket specifications and boundary samples: every delivery, allocation and snapshot of the real histogram code is compared with an independent bucketing model; held on the cases explored, not a proof over all float64/int64",
        "level_note": "trusts the 40-line reference model (mon/ref.go) and the recording reporters; inputs are PRNG-generated, boundary-heavy, not exhaustive",
        "technique": "runtime reference-model monitor (differential oracle) over generated inputs",
        "rule": "case = one generated bucket spec (value/duration; given, nil->library default, nil->root default, empty; 1..64 unsorted/duplicated bounds) recorded through a plain-recorder root, a cached-recorder root and a test scope with samples on every bound, one ulp/ns either side, +-0, extremes, +-Inf, NaN and PRNG values; distinct_nontrivial = distinct (type, form, bound list) hashes, unioned over batches",
        "assumptions": ["reference bucketing model in harness/mon/ref.go (sort, append sentinel, linear scan)", "recording reporters in harness/mon/rec.go"],
        "quick": [ph("input", 8, 400)],
        "thorough": [ph("input", 16, 20000)],
    },
    "C20": {
        "level": "exploration",
        "level_text": "Reference-model monitor: constructor results are compared with the stated recurrence/closed form and error conditions over generated arguments; histograms created from adversarially colliding bucket sets (permutations, equal bit-pattern sums, value/duration twins) under one root, sequentially and from concurrent goroutines, must each deliver exactly the tiling of their own spec",
        "level_note": "trusts the reference recurrence and bucketing model; collisions are constructed for the additive bucket-cache identity, 64-bit hash collisions beyond that are not searched",
        "technique": "runtime reference-model monitor over generated arguments and adversarial creation histories (also under the race detector)",
        "rule": "one case = 6 constructor calls (all four constructors and their Must variants; n in -5..40, zero/negative starts, factors around 1) + one caller-slice no-mutation probe + one colliding family of 2..7 histograms under one root (plain or cached, one third created concurrently); distinct_nontrivial = distinct accepted constructor argument tuples plus distinct (family, creation order) hashes",
        "assumptions": ["reference model mon/ref.go", "float recurrence accepted in either evaluation order (prev*factor or start*factor^i)"],
        "quick": [ph("input", 8, 400), ph("race", 2, 150, race=True)],
        "thorough": [ph("input", 16, 40000), ph("race", 8, 3000, race=True)],
    },
    "C04": {
        "level": "exploration",
        "level_text": "Reference-model monitor over generated derivation programs: the name and tags of every reporter call / snapshot entry of the real scope tree are compared with a left-fold name model and a right-biased tag overlay (through the reference sanitizer when options are set); caller maps are compared before/after and vandalised afterwards",
        "level_note": "trusts the reference name/tag/sanitizer models (mon/ref.go, cmd/vh/deriv.go); programs in which two distinct identities share a canonical key (delimiter characters, the C05 known finding) or two keys of one map sanitize to one key are skipped and counted",
        "technique": "runtime reference-model monitor (differential oracle) over generated derivation programs",
        "rule": "case = (root prefix/separator/tags, optional sanitizer options, program of 0..6 SubScope/Tagged steps over a small per-case string pool incl. empty, multi-byte, invalid UTF-8 and delimiter strings, metric names) run on plain, cached and test scopes with all four metric kinds, twice, with the caller's maps vandalised in between; distinct_nontrivial = distinct (root, program, metric, sanitizer) hashes of cases that were not skipped",
        "assumptions": ["reference models mon/ref.go + cmd/vh/deriv.go"],
        "quick": [ph("input", 8, 500)],
        "thorough": [ph("input", 16, 25000)],
    },
    "C06": {
        "level": "exploration",
        "level_text": "Reference-model monitor: NewSanitizer(opts).Name/Key/Value are compared rune-wise with an independent reference over generated options and boundary-heavy strings (also from 16 goroutines sharing the pooled buffers, results re-verified at the end), and every string a sanitizing scope hands to a recording reporter - cardinality metrics included - is checked to consist of allowed runes or the replacement",
        "level_note": "trusts the 20-line rune-wise reference sanitizer; options and strings are generated (range end-points +-1, invalid UTF-8, U+FFFD-allowing ranges), not exhaustive",
        "technique": "runtime reference-model monitor over generated options/strings + delivered-string invariant on recording reporters (also under the race detector)",
        "rule": "case = one generated SanitizeOptions x 120 boundary-heavy strings (sequential: reference equality, idempotence, determinism, rune count, identity on valid input; every fourth case also 16x60 concurrent calls with retained results re-verified) + one scope run (program depth 0..4, all metric kinds, cardinality metrics on, plain or cached); distinct_nontrivial = distinct option sets + distinct (options, program) pairs",
        "assumptions": ["reference sanitizer mon/ref.go"],
        "quick": [ph("input", 8, 150), ph("race", 2, 40, race=True)],
        "thorough": [ph("input", 16, 8000), ph("race", 8, 800, race=True)],
    },
    "C05": {
        "level": "exploration",
        "level_text": "Reference-model monitor over generated families of derivation programs from one root (regroupings/permutations with equal identity, single-assignment mutations, delimiter forgeries): pointer identity of every pair of returned scopes must agree with equality of the injective reference identity, a unique power-of-two value recorded through every distinct scope object must arrive under exactly that identity's name and tags, metric get-or-create is checked by pointer, and the public key functions are compared with the documented format, for determinism and multi-map/merged-map agreement",
        "level_note": "trusts the injective reference identity (length-prefixed prefix + sorted tags); cases containing a canonical-key collision through delimiter characters are only examined for the known finding KF-C05-delim",
        "technique": "runtime reference-model monitor over generated program families (pointer-identity and delivery oracles)",
        "rule": "case = one root (plain/cached, shard count 1..64) with 2..5 programs: a random base, regroupings of it (same identity by construction), mutations (value changed, key/value swapped, empty key, delimiter forging, extra level) and independent programs; all intermediate scopes of all programs are compared pairwise; plus one key-function case (1..4 maps); distinct_nontrivial = distinct (root, program family) and (prefix, maps) hashes",
        "assumptions": ["reference identity mon.IdentKey + cmd/vh/deriv.go"],
        "quick": [ph("input", 8, 700)],
        "thorough": [ph("input", 16, 35000)],
    },
    "C10": {
        "level": "exploration",
        "level_text": "History monitor at the API boundary: for every Timer.Record the recorder log must grow by exactly one timer event carrying that duration and the reference name/tags, ordered before the harness's 'Record returned' marker; interleaved report passes must add none; with both reporter kinds only the cached one may receive it; stopwatches are bracketed by monotonic clock readings taken around Start/Stop with PRNG sleeps; instrument.Call.Exec is checked for run-once, error identity, one latency and exactly one counter",
        "level_note": "trusts the recording reporters and the reference name/tag model; the stopwatch oracle compares against readings of the same monotonic clock (no wall-clock deadline)",
        "technique": "runtime history monitor (exactly-once / ordering oracle over recorded reporter calls) with clock-reading brackets",
        "rule": "case = one record history (3..40 ops on 1..3 derived scopes, plain/cached/both reporters, passes interleaved, durations incl. negative/0/int64 extremes) + one instrumented-call history (1..8 calls, random outcomes) + every 8th case a stopwatch (timer or duration histogram) with a PRNG sleep; distinct_nontrivial = distinct history hashes",
        "assumptions": ["recording reporters mon/rec.go", "time.Now monotonic readings"],
        "quick": [ph("input", 8, 300)],
        "thorough": [ph("input", 16, 15000)],
    },
    "C11": {
        "level": "exploration",
        "level_text": "Reference-model monitor: generated record/close/snapshot histories on a test scope and derived scopes are mirrored in a reference tally keyed by injective identity; every snapshot (taken at PRNG points and at the end) must equal it entry for entry, old snapshots are re-read after more recording, vandalised, and fresh snapshots re-checked; a concurrent variant brackets counter/gauge/timer values of snapshots taken while single recorders run",
        "level_note": "trusts the reference tally and bucketing model; strings exclude the delimiter characters (identity merges are the C05 known finding)",
        "technique": "runtime reference-model monitor over generated histories (also under the race detector for the concurrent variant)",
        "rule": "case = one history of 5..60 operations (Inc/Update/Record/RecordValue/RecordDuration/Snapshot/re-read+vandalise/close subscope) over 1..4 scopes of a test root; every 4th case also 30 snapshots concurrent with 3 recorders; distinct_nontrivial = distinct history hashes",
        "assumptions": ["reference tally in cmd/vh/c11.go", "mon/ref.go"],
        "quick": [ph("input", 8, 250), ph("race", 2, 40, race=True)],
        "thorough": [ph("input", 16, 12000), ph("race", 8, 1000, race=True)],
    },
    "C18": {
        "level": "exploration",
        "level_text": "Call-log monitor on a recording statsd.Statter: every report call on the real reporter must produce exactly one client call with the reference method, name, value and sample rate; bucket stat names are compared with a reference rendering over every pair of generated specs and checked pairwise for collisions",
        "level_note": "trusts the reference rendering (open ends, %.Pf, Duration.String) written from the property statement",
        "technique": "runtime call-log monitor with reference rendering over generated inputs",
        "rule": "case = one reporter configuration (precision 0(unset)..12, rate unset/1/(0,1)) x 12 counter/gauge/timer reports with extreme values + all bucket pairs of one generated value or duration spec (incl. bounds differing only beyond the precision); distinct_nontrivial = distinct case hashes",
        "assumptions": ["reference rendering in cmd/vh/c18.go"],
        "quick": [ph("input", 8, 400)],
        "thorough": [ph("input", 16, 20000)],
    },
    "C19": {
        "level": "exploration",
        "level_text": "Call-log monitor: generated call histories on plain and cached multi reporters over 0..5 recording children with all capability combinations; after every call each child's log must have grown by exactly one identical call, children in construction order (one global sequence counter), handles and histogram buckets included",
        "level_note": "trusts the recording reporters; histories are generated, not exhaustive",
        "technique": "runtime call-log monitor (per-child exactly-once and order oracle)",
        "rule": "case = one plain history (1..60 calls) + one cached history (1..80 allocations/reports/bucket lookups/flushes) over 0..5 children with random capabilities; distinct_nontrivial = distinct history hashes",
        "assumptions": ["recording reporters mon/rec.go"],
        "quick": [ph("input", 8, 300)],
        "thorough": [ph("input", 16, 15000)],
    },
    "C16": {
        "level": "exploration",
        "level_text": "Differential monitor over generated metrics and batches: the real Compact and Binary encoders (writing into a memory buffer through one reused protocol object), the real decoder and the size-calculating transport (through one reused protocol object, as the reporter uses it) are run side by side; decode(encode(x)) = x, len(encode(x)) = calc(x), calc(x with maximal values) >= len(encode(x))",
        "level_note": "compares the library's encoder, decoder and calculator with each other (no independent thrift implementation); sequences share protocol objects across a whole batch of cases so that carried-over state would show",
        "technique": "runtime differential monitor (encoder vs decoder vs size calculator) over generated structures",
        "rule": "case = 1..6 single metrics + one batch of 0..500 metrics (0..16 tags incl. nil/empty and the 14/15 short-list boundary, byte strings <= 1 KiB around the 127/128 varint boundary, int64/float64 extremes incl. NaN payloads, valid and invalid metric types) under Compact or Binary; distinct_nontrivial = distinct encodings (hash of the bytes)",
        "assumptions": ["vendored thrift decoder used as the inverse of the encoder"],
        "quick": [ph("input", 8, 500)],
        "thorough": [ph("input", 16, 30000)],
    },
    "C17": {
        "level": "exploration",
        "level_text": "Reference-model monitor: generated record histories through a tally scope backed by the real Prometheus reporter and a fresh registry are compared, after report passes, with a reference tally of Gather() output (counter sums, last gauge values, timer sample counts for both flavours, cumulative bucket counts and totals, series separation by label values); every ordered pair of kinds reusing one name (and the same kind with different tag keys) is driven with panicking and silent error callbacks, directly and through a scope, and any panic other than the callback's own is a violation",
        "level_note": "trusts the reference tally and the Prometheus client library's own Gather; negative counter deltas are outside the claim (documented Prometheus panic)",
        "technique": "runtime reference-model monitor over generated histories + conflict-sequence enumeration by PRNG",
        "rule": "case = one value history (5..50 ops over 4 scopes, 2 names per kind, strictly increasing value/duration specs with samples on and around every bound, passes interleaved) + one conflict scenario (7x7 kind pairs x same/different tag keys x panicking/silent callback x direct/through scope); distinct_nontrivial = distinct history hashes + distinct conflict scenarios",
        "assumptions": ["reference tally in cmd/vh/c17.go", "prometheus client_golang Gather()"],
        "quick": [ph("input", 8, 300)],
        "thorough": [ph("input", 16, 15000)],
    },
    "C01": {
        "level": "exploration",
        "level_text": "Conservation monitor over recorded increment markers and reporter deliveries. Tier B: a deterministic token scheduler serialises incrementers and 2-3 overlapping scope reports at the granularity of the schedule points between the atomic operations of the delta computation (every execution is a real execution of the real code, the trace is the replayable witness). Tier A: real concurrency with PRNG delay injection at the registry/Close/ticker points - ticker, manual passes, report-on-reacquire and root Close racing workers - checking exact per-counter sums, no negative or zero deltas, no over-report; also under the race detector",
        "level_note": "trusts the recording reporters and the harness's own increment bookkeeping; coverage = the schedules and runs listed in the evidence (distinct traces / interleaving signatures), not all interleavings",
        "technique": "runtime conservation monitor over event logs; deterministic token scheduler on lock-free paths + delay-injection stress + Go race detector",
        "rule": "tokens: case = one schedule of 1-2 incrementers (1-4 Inc from a non-negative or hostile value set, optional histogram samples) and 2-3 reporters (1-3 scope reports each) on 1-3 counters, plain/cached; non-trivial = a context switch while a worker is parked inside a library window; distinct = distinct (trace, program) hashes. stress: case = one root lifetime (1-30 scopes x 5-40 counters, 2-6 guaranteed workers, 1-3 close/re-request workers, 1-2 manual passers, 50-200us ticker, Close while two workers still run); distinct = distinct interleaving signatures (point A, point B, foreign points seen in between)",
        "assumptions": ["recording reporters mon/rec.go", "token scheduler only reorders goroutines at schedule points (mon/sched.go)"],
        "quick": [ph("tokens", 8, 2500), ph("stress", 8, 6, mode="stress"), ph("stress-race", 2, 3, mode="stress", race=True)],
        "thorough": [ph("tokens", 16, 125000), ph("stress", 16, 190, mode="stress", timeout=3000), ph("stress-race", 8, 40, mode="stress", race=True, timeout=3000)],
    },
    "C02": {
        "level": "exploration",
        "level_text": "History monitor over update markers and gauge deliveries (bit patterns). Tier B: token scheduler over the two stores of Update and the swap+load of report with 2-3 overlapping reporters; Tier A: 64 gauges, single updater per gauge, 3 pass goroutines and a ticker, 60 epochs of {burst, join, one pass, check} with delay injection; also under the race detector. Oracle: every delivered pattern was already passed to Update, deliveries <= updates, after quiescence one pass leaves the last update as the most recent delivery, a further pass delivers nothing",
        "level_note": "trusts the recording reporters; coverage = the schedules and epochs listed in the evidence",
        "technique": "runtime history monitor; deterministic token scheduler on lock-free paths + delay-injection stress + Go race detector",
        "rule": "tokens: case = one schedule of 1 updater (1-4 updates with NaN payloads, +-Inf, -0, subnormals, +0) and 2-3 reporters (1-3 scope reports each); non-trivial = context switch inside a library window; distinct = distinct (trace, values) hashes. stress: case = one root lifetime of 60 epochs over 64 gauges; distinct = distinct interleaving signatures",
        "assumptions": ["recording reporters mon/rec.go", "token scheduler mon/sched.go"],
        "quick": [ph("tokens", 8, 2500), ph("stress", 4, 3, mode="stress"), ph("stress-race", 2, 2, mode="stress", race=True)],
        "thorough": [ph("tokens", 16, 62500), ph("stress", 16, 60, mode="stress", timeout=3000), ph("stress-race", 8, 20, mode="stress", race=True, timeout=3000)],
    },
}

NOT_APPLICABLE = {}
